//! Engine B: small multi-thread scenarios over the UNMODIFIED crate (no feature, no hook),
//! executed by Miri, which owns the thread scheduler (-Zmiri-seed / -Zmiri-many-seeds,
//! -Zmiri-preemption-rate) and reports data races, deadlocks and undefined behaviour.
//! A disagreement between two evaluations of the same query prints `C10-MISMATCH` and exits 1.

use std::panic::catch_unwind;
use std::sync::{Arc, Barrier};
use std::thread;

use tyme4rs::tyme::lunar::{LunarMonth, LunarYear};
use tyme4rs::tyme::solar::SolarTerm;

fn month(y: isize, m: isize) -> String {
  match catch_unwind(|| LunarMonth::from_ym(y, m)) {
    Ok(x) => format!("ok {} {} {} {} {:016x}", x.get_year(), x.get_month_with_leap(), x.get_day_count(), x.get_index_in_year(), x.get_first_julian_day().get_day().to_bits()),
    Err(_) => "refused".to_string(),
  }
}

fn reference(y: isize, m: isize) -> String {
  match catch_unwind(|| LunarMonth::new(y, m)) {
    Ok(Ok(x)) => format!("ok {} {} {} {} {:016x}", x.get_year(), x.get_month_with_leap(), x.get_day_count(), x.get_index_in_year(), x.get_first_julian_day().get_day().to_bits()),
    _ => "refused".to_string(),
  }
}

fn check(who: usize, y: isize, m: isize, expect: &str) {
  let got = month(y, m);
  if got != expect {
    println!("C10-MISMATCH thread {} from_ym({}, {}) = {} but LunarMonth::new gives {}", who, y, m, got, expect);
    std::process::exit(1);
  }
}

fn main() {
  std::panic::set_hook(Box::new(|_| {}));
  let scenario: String = std::env::args().nth(1).unwrap_or_else(|| "a".to_string());
  match scenario.as_str() {
    // three callers asking a month, its leap twin and a digit twin, twice each
    "a" | "b" => {
      let keys: Vec<(isize, isize)> = vec![(2020, 4), (2020, -4), (202, 4)];
      let refs: Vec<String> = keys.iter().map(|k| reference(k.0, k.1)).collect();
      let keys = Arc::new(keys);
      let refs = Arc::new(refs);
      let bar = Arc::new(Barrier::new(3));
      let with_refusal = scenario == "b";
      let mut hs = Vec::new();
      for t in 0..3usize {
        let keys = keys.clone();
        let refs = refs.clone();
        let bar = bar.clone();
        hs.push(thread::spawn(move || {
          bar.wait();
          if with_refusal && t == 0 {
            // a refused request, caught by the caller, while the others are asking
            let r = month(2020, 13);
            assert_eq!(r, "refused");
            let r = month(2020, -5);
            assert_eq!(r, "refused");
          }
          for round in 0..2 {
            for k in 0..keys.len() {
              let i = (k + t + round) % keys.len();
              check(t, keys[i].0, keys[i].1, &refs[i]);
            }
          }
        }));
      }
      for h in hs {
        h.join().unwrap();
      }
    }
    // two callers racing on the first use of every lazy static
    "c" => {
      let bar = Arc::new(Barrier::new(2));
      let mut hs = Vec::new();
      for t in 0..2usize {
        let bar = bar.clone();
        hs.push(thread::spawn(move || {
          bar.wait();
          let leap = LunarYear::from_year(2020).get_leap_month();
          let term = SolarTerm::from_index(2020, 3).get_cursory_julian_day().to_bits();
          let m = month(2020, if t == 0 { 4 } else { -4 });
          (leap, term, m)
        }));
      }
      let r: Vec<(usize, u64, String)> = hs.into_iter().map(|h| h.join().unwrap()).collect();
      if r[0].0 != r[1].0 || r[0].1 != r[1].1 || r[0].0 != 4 {
        println!("C10-MISMATCH first-use race: {:?}", r);
        std::process::exit(1);
      }
      let e0 = reference(2020, 4);
      let e1 = reference(2020, -4);
      if r[0].2 != e0 || r[1].2 != e1 {
        println!("C10-MISMATCH first-use race months: {:?} vs {} / {}", r, e0, e1);
        std::process::exit(1);
      }
    }
    // a computation that panics inside the eight-char provider's critical section on one caller
    // while another caller asks valid eight characters: nobody may be harmed (poison recovery),
    // no data race, no deadlock
    "d" => {
      use tyme4rs::tyme::solar::SolarTime;
      use tyme4rs::tyme::Culture;
      let ask = |y: isize, mo: usize, d: usize| -> String {
        match catch_unwind(|| SolarTime::from_ymd_hms(y, mo, d, 12, 0, 0).get_lunar_hour().get_eight_char().get_name()) {
          Ok(s) => s,
          Err(_) => "refused".to_string(),
        }
      };
      let expect = ask(2000, 1, 7);
      let bar = Arc::new(Barrier::new(2));
      let b0 = bar.clone();
      let t0 = thread::spawn(move || {
        b0.wait();
        let r = ask(1, 1, 1);
        (r, String::new())
      });
      let b1 = bar.clone();
      let t1 = thread::spawn(move || {
        b1.wait();
        (ask(2000, 1, 7), ask(2000, 1, 7))
      });
      let r0 = t0.join().unwrap();
      let r1 = t1.join().unwrap();
      let after = ask(2000, 1, 7);
      if r0.0 != "refused" || r1.0 != expect || r1.1 != expect || after != expect {
        println!("C10-MISMATCH eight-char under a panicking provider call: {:?} {:?} after={} expected {}", r0, r1, after, expect);
        std::process::exit(1);
      }
    }
    // aliasing twins asked concurrently: two callers alternate between arguments that would share
    // a slot in a truncated / direct-mapped / packed-key memo (year +-256, +-60, term index +-24),
    // on the cheap lock-free-looking paths (solar terms, leap month of a year). Preemption between
    // any two basic blocks is Miri's; a mixed record shows up as a mismatch with the reference.
    "e" => {
      let term = |y: isize, i: isize| -> String {
        match catch_unwind(|| SolarTerm::from_index(y, i)) {
          Ok(t) => format!("{} {} {:016x}", t.get_year(), t.get_index(), t.get_cursory_julian_day().to_bits()),
          Err(_) => "refused".to_string(),
        }
      };
      let leap = |y: isize| -> String {
        match catch_unwind(|| LunarYear::from_year(y).get_leap_month()) {
          Ok(l) => format!("{}", l),
          Err(_) => "refused".to_string(),
        }
      };
      // (base, twin) pairs
      let pairs: Vec<((isize, isize), (isize, isize))> = vec![((2000, 3), (2256, 3)), ((2000, 12), (976, 12)), ((2020, 0), (2080, 0)), ((1999, 27), (2000, 3))];
      let years: Vec<(isize, isize)> = vec![(2020, 2276), (2033, 2093)];
      let mut refs: Vec<(String, String)> = Vec::new();
      for (a, b) in &pairs {
        refs.push((term(a.0, a.1), term(b.0, b.1)));
      }
      let mut lrefs: Vec<(String, String)> = Vec::new();
      for (a, b) in &years {
        lrefs.push((leap(*a), leap(*b)));
      }
      let pairs = Arc::new(pairs);
      let refs = Arc::new(refs);
      let years = Arc::new(years);
      let lrefs = Arc::new(lrefs);
      let bar = Arc::new(Barrier::new(2));
      let mut hs = Vec::new();
      for t in 0..2usize {
        let (pairs, refs, years, lrefs, bar) = (pairs.clone(), refs.clone(), years.clone(), lrefs.clone(), bar.clone());
        hs.push(thread::spawn(move || {
          bar.wait();
          for round in 0..3usize {
            for k in 0..pairs.len() {
              // thread 0 starts with the base, thread 1 with the twin; they swap every round
              let first_is_base = (t + round) % 2 == 0;
              let (x, rx) = if first_is_base { (pairs[k].0, &refs[k].0) } else { (pairs[k].1, &refs[k].1) };
              let got = term(x.0, x.1);
              if &got != rx {
                println!("C10-MISMATCH thread {} SolarTerm::from_index({}, {}) = {} but alone it is {}", t, x.0, x.1, got, rx);
                std::process::exit(1);
              }
            }
            if round == 1 {
              for k in 0..years.len() {
                let (y, ry) = if t == 0 { (years[k].0, &lrefs[k].0) } else { (years[k].1, &lrefs[k].1) };
                let got = leap(y);
                if &got != ry {
                  println!("C10-MISMATCH thread {} leap month of {} = {} but alone it is {}", t, y, got, ry);
                  std::process::exit(1);
                }
              }
            }
          }
        }));
      }
      for h in hs {
        h.join().unwrap();
      }
    }
    _ => {
      eprintln!("unknown scenario");
      std::process::exit(2);
    }
  }
  println!("scenario {} ok", scenario);
}
