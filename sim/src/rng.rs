//! SplitMix64: the only source of randomness in the simulator. One u64 seed decides a stream.

#[derive(Clone, Debug)]
pub struct Rng {
  s: u64,
}

pub fn mix(a: u64, b: u64) -> u64 {
  let mut r = Rng::new(a ^ b.wrapping_mul(0x9E3779B97F4A7C15).rotate_left(17));
  r.next_u64()
}

impl Rng {
  pub fn new(seed: u64) -> Self {
    Self { s: seed }
  }

  pub fn next_u64(&mut self) -> u64 {
    self.s = self.s.wrapping_add(0x9E3779B97F4A7C15);
    let mut z = self.s;
    z = (z ^ (z >> 30)).wrapping_mul(0xBF58476D1CE4E5B9);
    z = (z ^ (z >> 27)).wrapping_mul(0x94D049BB133111EB);
    z ^ (z >> 31)
  }

  /// uniform in 0..n (n > 0)
  pub fn below(&mut self, n: u64) -> u64 {
    if n == 0 {
      return 0;
    }
    // multiply-shift; bias is irrelevant here
    ((self.next_u64() as u128 * n as u128) >> 64) as u64
  }

  /// uniform in lo..=hi
  pub fn range(&mut self, lo: i64, hi: i64) -> i64 {
    lo + self.below((hi - lo + 1) as u64) as i64
  }

  /// true with probability num/den
  pub fn chance(&mut self, num: u64, den: u64) -> bool {
    self.below(den) < num
  }

  pub fn pick<'a, T>(&mut self, v: &'a [T]) -> &'a T {
    &v[self.below(v.len() as u64) as usize]
  }

  pub fn shuffle<T>(&mut self, v: &mut [T]) {
    for i in (1..v.len()).rev() {
      let j = self.below(i as u64 + 1) as usize;
      v.swap(i, j);
    }
  }

  pub fn fork(&mut self, tag: u64) -> Rng {
    Rng::new(mix(self.next_u64(), tag))
  }
}

pub fn fnv(h: u64, bytes: &[u8]) -> u64 {
  let mut h = h;
  for b in bytes {
    h ^= *b as u64;
    h = h.wrapping_mul(0x100000001b3);
  }
  h
}

pub const FNV0: u64 = 0xcbf29ce484222325;
