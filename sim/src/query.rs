//! Query vocabulary: public-API calls of tyme4rs with concrete integer arguments, each rendered
//! to a canonical string (Display plus numeric getters, f64 as bit patterns).
//!
//! A query's *key* is its name plus its arguments. The outcome is either `Ok(rendering)` or
//! `Refused(message)` (an `Err` result or a panic). Nothing here knows anything about calendars:
//! the only use made of the renderings is to compare two evaluations of the same key.

use std::fmt::Display;
use std::panic::{catch_unwind, AssertUnwindSafe};

use tyme4rs::tyme::culture::peng_zu::PengZu;
use tyme4rs::tyme::culture::star::nine::NineStar;
use tyme4rs::tyme::culture::star::twelve::TwelveStar;
use tyme4rs::tyme::culture::star::twenty_eight::TwentyEightStar;
use tyme4rs::tyme::culture::KitchenGodSteed;
use tyme4rs::tyme::eightchar::provider::{ChildLimitProvider, China95ChildLimitProvider, DefaultChildLimitProvider, LunarSect1ChildLimitProvider, LunarSect2ChildLimitProvider};
use tyme4rs::tyme::solar::{SolarHalfYear, SolarSeason};
use tyme4rs::tyme::culture::{Animal, Constellation, Direction, Duty, Element, God, Phase, Sound, Taboo, Ten, Terrain, Week, Zodiac};
use tyme4rs::tyme::eightchar::{ChildLimit, DecadeFortune, EightChar, Fortune};
use tyme4rs::tyme::enums::Gender;
use tyme4rs::tyme::festival::{LunarFestival, SolarFestival};
use tyme4rs::tyme::holiday::LegalHoliday;
use tyme4rs::tyme::jd::JulianDay;
use tyme4rs::tyme::lunar::{LunarDay, LunarHour, LunarMonth, LunarWeek, LunarYear};
use tyme4rs::tyme::sixtycycle::{EarthBranch, HeavenStem, SixtyCycle, SixtyCycleDay, SixtyCycleHour, SixtyCycleMonth, SixtyCycleYear};
use tyme4rs::tyme::solar::{SolarDay, SolarMonth, SolarTerm, SolarTime, SolarWeek, SolarYear};
use tyme4rs::tyme::{Culture, Tyme};

use crate::sched::AbortRun;

#[derive(Clone, Debug, PartialEq, Eq, Hash)]
pub struct Query {
  pub kind: usize,
  pub args: Vec<i64>,
}

#[derive(Clone, Debug, PartialEq, Eq)]
pub enum Outcome {
  Ok(String),
  Refused(String),
}

impl Outcome {
  pub fn class(&self) -> char {
    match self {
      Outcome::Ok(_) => 'K',
      Outcome::Refused(_) => 'R',
    }
  }

  pub fn text(&self) -> &str {
    match self {
      Outcome::Ok(s) => s,
      Outcome::Refused(s) => s,
    }
  }

  /// What is compared: the class and, for Ok, the rendering. Refusal messages are not compared.
  pub fn digest(&self) -> u64 {
    match self {
      Outcome::Ok(s) => crate::rng::fnv(crate::rng::FNV0, s.as_bytes()) | 1,
      Outcome::Refused(_) => 0,
    }
  }
}

pub type ExecFn = fn(&[i64]) -> Result<String, String>;

pub struct KindDef {
  pub name: &'static str,
  pub arity: usize,
  pub exec: ExecFn,
  /// family index, see FAMILIES
  pub family: usize,
  /// relative cost class: 0 cheap, 1 medium, 2 heavy
  pub cost: u8,
}

pub const FAMILIES: [&str; 10] = ["lunar-month", "lunar-year", "lunar-week", "lunar-day", "lunar-hour", "solar-day", "solar-time", "sixty-cycle", "festival", "eight-char"];
pub const FAM_LM: usize = 0;
pub const FAM_LY: usize = 1;
pub const FAM_LW: usize = 2;
pub const FAM_LD: usize = 3;
pub const FAM_LH: usize = 4;
pub const FAM_SD: usize = 5;
pub const FAM_ST: usize = 6;
pub const FAM_SC: usize = 7;
pub const FAM_FE: usize = 8;
pub const FAM_EC: usize = 9;

fn u(x: i64) -> usize {
  x as usize
}

fn i(x: i64) -> isize {
  x as isize
}

pub fn opt<T: Display>(o: Option<T>) -> String {
  match o {
    Some(x) => format!("Some({})", x),
    None => "None".to_string(),
  }
}

pub fn join<T, F: Fn(&T) -> String>(v: &[T], f: F) -> String {
  let mut s = String::new();
  s.push_str(&format!("#{}[", v.len()));
  for (k, x) in v.iter().enumerate() {
    if k > 0 {
      s.push(';');
    }
    s.push_str(&f(x));
  }
  s.push(']');
  s
}

pub fn r_lm(m: &LunarMonth) -> String {
  format!("LM({} {} dc={} idx={} jd={:016x} {})", m.get_year(), m.get_month_with_leap(), m.get_day_count(), m.get_index_in_year(), m.get_first_julian_day().get_day().to_bits(), m)
}

pub fn r_ld(d: &LunarDay) -> String {
  format!("LD({} {} {} {})", d.get_year(), d.get_month(), d.get_day(), d)
}

pub fn r_lh(h: &LunarHour) -> String {
  format!("LH({} {} {} {}:{}:{} {})", h.get_year(), h.get_month(), h.get_day(), h.get_hour(), h.get_minute(), h.get_second(), h)
}

pub fn r_sd(d: &SolarDay) -> String {
  format!("SD({} {} {})", d.get_year(), d.get_month(), d.get_day())
}

pub fn r_st(t: &SolarTime) -> String {
  format!("ST({} {} {} {}:{}:{})", t.get_year(), t.get_month(), t.get_day(), t.get_hour(), t.get_minute(), t.get_second())
}

pub fn r_term(t: &SolarTerm) -> String {
  format!("TERM({} {} {} jd={:016x})", t.get_year(), t.get_index(), t, t.get_cursory_julian_day().to_bits())
}

pub fn r_scm(m: &SixtyCycleMonth) -> String {
  format!("SCM({} {} {} idx={})", m.get_sixty_cycle_year().get_year(), m.get_year(), m.get_sixty_cycle(), m.get_index_in_year())
}

pub fn r_scd(d: &SixtyCycleDay) -> String {
  format!("SCD({} y={} m={} d={} {})", r_sd(&d.get_solar_day()), d.get_year(), d.get_month(), d.get_sixty_cycle(), r_scm(&d.get_sixty_cycle_month()))
}

pub fn r_sch(h: &SixtyCycleHour) -> String {
  format!("SCH({} y={} m={} d={} h={} idx={} day={})", r_st(&h.get_solar_time()), h.get_year(), h.get_month(), h.get_day(), h.get_sixty_cycle(), h.get_index_in_day(), r_scd(&h.get_sixty_cycle_day()))
}

pub fn r_ec(e: &EightChar) -> String {
  format!("EC({} {} {} {})", e.get_year(), e.get_month(), e.get_day(), e.get_hour())
}

pub fn r_lw(w: &LunarWeek) -> String {
  format!("LW({} {} idx={} start={} {})", w.get_year(), w.get_month(), w.get_index(), w.get_start(), w)
}

pub fn r_lf(f: &LunarFestival) -> String {
  format!("LF(idx={} type={} {} day={} term={})", f.get_index(), f.get_type(), f, r_ld(&f.get_day()), opt(f.get_solar_term().map(|t| r_term(&t))))
}

fn r_sf(f: &SolarFestival) -> String {
  format!("SF(idx={} {} day={} start={})", f.get_index(), f, r_sd(&f.get_day()), f.get_start_year())
}

fn r_hol(h: &LegalHoliday) -> String {
  format!("HOL({} day={} work={})", h, r_sd(&h.get_day()), h.is_work())
}

pub fn taboos(v: &[Taboo]) -> String {
  join(v, |t| t.to_string())
}

pub fn gods(v: &[God]) -> String {
  join(v, |g| format!("{}{}", g, g.get_luck()))
}

/// LunarDay getters, shared by the plain query kind and by value handles.
pub const LD_GETTERS: usize = 21;

pub fn ld_get(d: &LunarDay, g: i64) -> String {
  match g {
    0 => r_sd(&d.get_solar_day()),
    1 => d.get_sixty_cycle().to_string(),
    2 => r_scd(&d.get_sixty_cycle_day()),
    3 => d.get_week().to_string(),
    4 => d.get_nine_star().to_string(),
    5 => d.get_twenty_eight_star().to_string(),
    6 => opt(d.get_festival().map(|f| r_lf(&f))),
    7 => d.get_duty().to_string(),
    8 => d.get_twelve_star().to_string(),
    9 => d.get_six_star().to_string(),
    10 => d.get_jupiter_direction().to_string(),
    11 => d.get_fetus_day().to_string(),
    12 => gods(&d.get_gods()),
    13 => taboos(&d.get_recommends()),
    14 => taboos(&d.get_avoids()),
    15 => d.get_minor_ren().to_string(),
    16 => join(&d.get_hours(), |h| format!("{} {}", r_lh(h), r_st(&h.get_solar_time()))),
    17 => r_lm(&d.get_lunar_month()),
    18 => r_ld(d),
    19 => d.get_phase().to_string(),
    _ => format!("{} {}", r_sd(&d.get_solar_day()), r_scd(&d.get_sixty_cycle_day())),
  }
}

pub const LH_GETTERS: usize = 12;

pub fn lh_get(h: &LunarHour, g: i64) -> String {
  match g {
    0 => r_st(&h.get_solar_time()),
    1 => h.get_sixty_cycle().to_string(),
    2 => r_sch(&h.get_sixty_cycle_hour()),
    3 => r_ec(&h.get_eight_char()),
    4 => h.get_nine_star().to_string(),
    5 => h.get_twelve_star().to_string(),
    6 => taboos(&h.get_recommends()),
    7 => taboos(&h.get_avoids()),
    8 => h.get_minor_ren().to_string(),
    9 => r_lh(h),
    10 => r_ld(&h.get_lunar_day()),
    _ => format!("{} {}", r_st(&h.get_solar_time()), r_sch(&h.get_sixty_cycle_hour())),
  }
}

pub const SD_GETTERS: usize = 20;

fn sd_get(d: &SolarDay, g: i64) -> String {
  match g {
    0 => r_ld(&d.get_lunar_day()),
    1 => r_scd(&d.get_sixty_cycle_day()),
    2 => opt(d.get_dog_day()),
    3 => opt(d.get_nine_day()),
    4 => opt(d.get_plum_rain_day()),
    5 => {
      let t = d.get_term_day();
      format!("{} {} {}", r_term(&t.get_solar_term()), t.get_day_index(), t)
    }
    6 => d.get_week().to_string(),
    7 => d.get_constellation().to_string(),
    8 => d.get_phenology_day().to_string(),
    9 => d.get_hide_heaven_stem_day().to_string(),
    10 => opt(d.get_legal_holiday().map(|h| r_hol(&h))),
    11 => opt(d.get_festival().map(|f| r_sf(&f))),
    12 => {
      let w: SolarWeek = d.get_solar_week(1);
      format!("{} idx={} first={} iy={}", w, w.get_index(), r_sd(&w.get_first_day()), w.get_index_in_year())
    }
    13 => d.get_index_in_year().to_string(),
    14 => format!("{:016x}", d.get_julian_day().get_day().to_bits()),
    15 => {
      let s = d.get_sixty_cycle_day();
      format!("{} {} {} {} {} {}", s.get_duty(), s.get_twelve_star(), s.get_nine_star(), s.get_twenty_eight_star(), s.get_jupiter_direction(), s.get_fetus_day())
    }
    16 => {
      let s = d.get_sixty_cycle_day();
      format!("{} {} {}", gods(&s.get_gods()), taboos(&s.get_recommends()), taboos(&s.get_avoids()))
    }
    17 => join(&d.get_sixty_cycle_day().get_hours(), |h| r_sch(h)),
    18 => r_scd(&d.get_sixty_cycle_day().get_sixty_cycle_month().get_first_day()),
    _ => {
      let l = d.get_lunar_day();
      format!("{} {} {}", r_ld(&l), r_sd(&l.get_solar_day()), l.get_sixty_cycle())
    }
  }
}

pub const ST_GETTERS: usize = 8;

fn st_get(t: &SolarTime, g: i64) -> String {
  match g {
    0 => r_lh(&t.get_lunar_hour()),
    1 => r_sch(&t.get_sixty_cycle_hour()),
    2 => r_term(&t.get_term()),
    3 => format!("{:016x}", t.get_julian_day().get_day().to_bits()),
    4 => r_ec(&t.get_lunar_hour().get_eight_char()),
    5 => {
      let h = t.get_sixty_cycle_hour();
      format!("{} {}", h.get_nine_star(), h.get_twelve_star())
    }
    6 => {
      let h = t.get_sixty_cycle_hour();
      format!("{} {}", taboos(&h.get_recommends()), taboos(&h.get_avoids()))
    }
    _ => {
      let e = t.get_sixty_cycle_hour().get_eight_char();
      format!("{} {} {} {} {} {}", r_ec(&e), e.get_fetal_origin(), e.get_fetal_breath(), e.get_own_sign(), e.get_body_sign(), e.get_duty())
    }
  }
}

fn q_lm_from_ym(a: &[i64]) -> Result<String, String> {
  Ok(r_lm(&LunarMonth::from_ym(i(a[0]), i(a[1]))))
}

fn q_lm_new(a: &[i64]) -> Result<String, String> {
  LunarMonth::new(i(a[0]), i(a[1])).map(|m| r_lm(&m))
}

fn q_lm_next(a: &[i64]) -> Result<String, String> {
  Ok(r_lm(&LunarMonth::from_ym(i(a[0]), i(a[1])).next(i(a[2]))))
}

fn q_lm_days(a: &[i64]) -> Result<String, String> {
  let m = LunarMonth::from_ym(i(a[0]), i(a[1]));
  Ok(join(&m.get_days(), |d| format!("{} {}", r_ld(d), r_sd(&d.get_solar_day()))))
}

fn q_lm_weeks(a: &[i64]) -> Result<String, String> {
  let m = LunarMonth::from_ym(i(a[0]), i(a[1]));
  Ok(format!("{} {}", m.get_week_count(u(a[2])), join(&m.get_weeks(u(a[2])), |w| format!("{} {}", r_lw(w), r_ld(&w.get_first_day())))))
}

fn q_lm_misc(a: &[i64]) -> Result<String, String> {
  let m = LunarMonth::from_ym(i(a[0]), i(a[1]));
  Ok(format!("{} {} {} {} {} {} {}", m.get_sixty_cycle(), m.get_nine_star(), m.get_jupiter_direction(), m.get_season(), opt(m.get_fetus()), m.get_minor_ren(), m.is_leap()))
}

fn q_ly_months(a: &[i64]) -> Result<String, String> {
  let y = LunarYear::new(i(a[0]))?;
  Ok(format!("{} dc={} leap={} mc={} {}", y, y.get_day_count(), y.get_leap_month(), y.get_month_count(), join(&y.get_months(), |m| r_lm(m))))
}

fn q_ly_misc(a: &[i64]) -> Result<String, String> {
  let y = LunarYear::new(i(a[0]))?;
  let k = y.get_kitchen_god_steed();
  Ok(format!("{} leap={} {} {} {} {} {} {}", y, y.get_leap_month(), y.get_sixty_cycle(), y.get_twenty(), y.get_nine_star(), y.get_jupiter_direction(), k, k.get_dragon()))
}

fn q_lw_from_ym(a: &[i64]) -> Result<String, String> {
  let w = LunarWeek::new(i(a[0]), i(a[1]), u(a[2]), u(a[3]))?;
  Ok(format!("{} first={} {}", r_lw(&w), r_ld(&w.get_first_day()), join(&w.get_days(), |d| r_ld(d))))
}

fn q_lw_next(a: &[i64]) -> Result<String, String> {
  let w = LunarWeek::from_ym(i(a[0]), i(a[1]), u(a[2]), u(a[3])).next(i(a[4]));
  Ok(format!("{} first={}", r_lw(&w), r_ld(&w.get_first_day())))
}

fn q_ld_new(a: &[i64]) -> Result<String, String> {
  LunarDay::new(i(a[0]), i(a[1]), u(a[2])).map(|d| r_ld(&d))
}

fn q_ld_get(a: &[i64]) -> Result<String, String> {
  Ok(ld_get(&LunarDay::from_ymd(i(a[0]), i(a[1]), u(a[2])), a[3]))
}

fn q_ld_next(a: &[i64]) -> Result<String, String> {
  let d = LunarDay::from_ymd(i(a[0]), i(a[1]), u(a[2])).next(i(a[3]));
  Ok(format!("{} {}", r_ld(&d), r_sd(&d.get_solar_day())))
}

fn q_ld_step(a: &[i64]) -> Result<String, String> {
  Ok(r_ld(&LunarDay::from_ymd(i(a[0]), i(a[1]), u(a[2])).next(i(a[3]))))
}

fn h_new(kind: usize, a: &[i64]) -> Result<String, String> {
  Ok(crate::handles::Handle::make(kind, &a[..crate::handles::HARITY[kind]])?.render())
}

fn h_get(kind: usize, a: &[i64]) -> Result<String, String> {
  let n = crate::handles::HARITY[kind];
  Ok(crate::handles::Handle::make(kind, &a[..n])?.get(a[n]))
}

fn h_step(kind: usize, a: &[i64]) -> Result<String, String> {
  let n = crate::handles::HARITY[kind];
  Ok(crate::handles::Handle::make(kind, &a[..n])?.step(a[n]).render())
}

fn h_cmp(kind: usize, a: &[i64]) -> Result<String, String> {
  let n = crate::handles::HARITY[kind];
  let x = crate::handles::Handle::make(kind, &a[..n])?;
  let y = crate::handles::Handle::make(kind, &a[n..2 * n])?;
  x.compare(&y).ok_or("not comparable".to_string())
}

macro_rules! hkind_fns {
  ($new:ident, $get:ident, $step:ident, $cmp:ident, $k:expr) => {
    fn $new(a: &[i64]) -> Result<String, String> {
      h_new($k, a)
    }
    fn $get(a: &[i64]) -> Result<String, String> {
      h_get($k, a)
    }
    fn $step(a: &[i64]) -> Result<String, String> {
      h_step($k, a)
    }
    fn $cmp(a: &[i64]) -> Result<String, String> {
      h_cmp($k, a)
    }
  };
}

#[allow(dead_code)]
fn _unused_steps() -> [ExecFn; 2] {
  [q_ec_step, q_clh_step]
}

hkind_fns!(q_ec_mk, q_ec_get, q_ec_step, q_ec_cmp, 6);
hkind_fns!(q_clh_new, q_clh_get, q_clh_step, q_clh_cmp, 7);
hkind_fns!(q_df_new, q_df_get, q_df_step, q_df_cmp, 8);
hkind_fns!(q_ft_new, q_ft_get, q_ft_step, q_ft_cmp, 9);
hkind_fns!(q_scm_new, q_scm_get, q_scm_step, q_scm_cmp, 10);
hkind_fns!(q_lfh_new, q_lfh_get, q_lfh_step, q_lfh_cmp, 11);

fn q_ld_cmp(a: &[i64]) -> Result<String, String> {
  h_cmp(0, a)
}

fn q_lh_cmp(a: &[i64]) -> Result<String, String> {
  h_cmp(1, a)
}

fn q_scd_cmp(a: &[i64]) -> Result<String, String> {
  h_cmp(2, a)
}

fn q_sch_cmp(a: &[i64]) -> Result<String, String> {
  h_cmp(3, a)
}

fn q_lw_cmp(a: &[i64]) -> Result<String, String> {
  h_cmp(4, a)
}

fn q_term_cmp(a: &[i64]) -> Result<String, String> {
  h_cmp(5, a)
}

fn q_scd_new(a: &[i64]) -> Result<String, String> {
  h_new(2, a)
}

fn q_sch_new(a: &[i64]) -> Result<String, String> {
  h_new(3, a)
}

fn q_lw_new(a: &[i64]) -> Result<String, String> {
  h_new(4, a)
}

fn q_term_new(a: &[i64]) -> Result<String, String> {
  h_new(5, a)
}

fn q_scd_get(a: &[i64]) -> Result<String, String> {
  h_get(2, a)
}

fn q_sch_get(a: &[i64]) -> Result<String, String> {
  h_get(3, a)
}

fn q_lw_get(a: &[i64]) -> Result<String, String> {
  h_get(4, a)
}

fn q_term_get(a: &[i64]) -> Result<String, String> {
  h_get(5, a)
}

fn q_lw_step(a: &[i64]) -> Result<String, String> {
  h_step(4, a)
}

fn q_scd_hour(a: &[i64]) -> Result<String, String> {
  Ok(crate::handles::Handle::make(2, &a[..3])?.hour(u(a[3]))?.render())
}

fn q_ld_hour(a: &[i64]) -> Result<String, String> {
  let mut hours = LunarDay::from_ymd(i(a[0]), i(a[1]), u(a[2])).get_hours();
  if u(a[3]) >= hours.len() {
    return Err("no such hour".to_string());
  }
  Ok(r_lh(&hours.swap_remove(u(a[3]))))
}

fn q_lh_step(a: &[i64]) -> Result<String, String> {
  Ok(r_lh(&LunarHour::from_ymd_hms(i(a[0]), i(a[1]), u(a[2]), u(a[3]), u(a[4]), u(a[5])).next(i(a[6]))))
}

fn q_lh_new(a: &[i64]) -> Result<String, String> {
  LunarHour::new(i(a[0]), i(a[1]), u(a[2]), u(a[3]), u(a[4]), u(a[5])).map(|h| r_lh(&h))
}

fn q_lh_get(a: &[i64]) -> Result<String, String> {
  Ok(lh_get(&LunarHour::from_ymd_hms(i(a[0]), i(a[1]), u(a[2]), u(a[3]), u(a[4]), u(a[5])), a[6]))
}

fn q_lh_next(a: &[i64]) -> Result<String, String> {
  let h = LunarHour::from_ymd_hms(i(a[0]), i(a[1]), u(a[2]), u(a[3]), u(a[4]), u(a[5])).next(i(a[6]));
  Ok(format!("{} {}", r_lh(&h), r_st(&h.get_solar_time())))
}

fn q_sd_new(a: &[i64]) -> Result<String, String> {
  SolarDay::new(i(a[0]), u(a[1]), u(a[2])).map(|d| r_sd(&d))
}

fn q_sd_get(a: &[i64]) -> Result<String, String> {
  Ok(sd_get(&SolarDay::from_ymd(i(a[0]), u(a[1]), u(a[2])), a[3]))
}

fn q_sd_next(a: &[i64]) -> Result<String, String> {
  let d = SolarDay::from_ymd(i(a[0]), u(a[1]), u(a[2])).next(i(a[3]));
  Ok(format!("{} {}", r_sd(&d), r_ld(&d.get_lunar_day())))
}

fn q_sd_sub(a: &[i64]) -> Result<String, String> {
  let d = SolarDay::from_ymd(i(a[0]), u(a[1]), u(a[2]));
  let e = SolarDay::from_ymd(i(a[3]), u(a[4]), u(a[5]));
  Ok(format!("{} {} {}", d.subtract(e), d.is_before(e), d.get_lunar_day().is_before(e.get_lunar_day())))
}

fn q_st_get(a: &[i64]) -> Result<String, String> {
  Ok(st_get(&SolarTime::from_ymd_hms(i(a[0]), u(a[1]), u(a[2]), u(a[3]), u(a[4]), u(a[5])), a[6]))
}

fn q_st_next(a: &[i64]) -> Result<String, String> {
  let t = SolarTime::from_ymd_hms(i(a[0]), u(a[1]), u(a[2]), u(a[3]), u(a[4]), u(a[5])).next(i(a[6]));
  Ok(format!("{} {}", r_st(&t), r_lh(&t.get_lunar_hour())))
}

fn q_sm_misc(a: &[i64]) -> Result<String, String> {
  let m = SolarMonth::new(i(a[0]), u(a[1]))?;
  Ok(format!("{} dc={} wc={} {}", m, m.get_day_count(), m.get_week_count(u(a[2])), join(&m.get_weeks(u(a[2])), |w| r_sd(&w.get_first_day()))))
}

fn q_sy_misc(a: &[i64]) -> Result<String, String> {
  let y = SolarYear::new(i(a[0]))?;
  Ok(format!("{} dc={} leap={}", y, y.get_day_count(), y.is_leap()))
}

fn q_scy_months(a: &[i64]) -> Result<String, String> {
  let y = SixtyCycleYear::new(i(a[0]))?;
  Ok(format!("{} {} {} {} {} {}", y, y.get_sixty_cycle(), y.get_twenty(), y.get_nine_star(), y.get_jupiter_direction(), join(&y.get_months(), |m| r_scm(m))))
}

fn q_scm_first(a: &[i64]) -> Result<String, String> {
  let m = SixtyCycleMonth::from_index(i(a[0]), i(a[1]));
  Ok(format!("{} first={} {} {}", r_scm(&m), r_scd(&m.get_first_day()), m.get_nine_star(), m.get_jupiter_direction()))
}

fn q_scm_days(a: &[i64]) -> Result<String, String> {
  let m = SixtyCycleMonth::from_index(i(a[0]), i(a[1]));
  Ok(join(&m.get_days(), |d| r_scd(d)))
}

fn q_scd_next(a: &[i64]) -> Result<String, String> {
  let d = SixtyCycleDay::from_solar_day(SolarDay::from_ymd(i(a[0]), u(a[1]), u(a[2]))).next(i(a[3]));
  Ok(r_scd(&d))
}

fn q_sch_next(a: &[i64]) -> Result<String, String> {
  let h = SixtyCycleHour::from_solar_time(SolarTime::from_ymd_hms(i(a[0]), u(a[1]), u(a[2]), u(a[3]), u(a[4]), u(a[5]))).next(i(a[6]));
  Ok(r_sch(&h))
}

fn q_lf_idx(a: &[i64]) -> Result<String, String> {
  Ok(opt(LunarFestival::from_index(i(a[0]), u(a[1])).map(|f| r_lf(&f))))
}

fn q_lf_ymd(a: &[i64]) -> Result<String, String> {
  Ok(opt(LunarFestival::from_ymd(i(a[0]), i(a[1]), u(a[2])).map(|f| r_lf(&f))))
}

fn q_lf_next(a: &[i64]) -> Result<String, String> {
  let f = LunarFestival::from_index(i(a[0]), u(a[1])).ok_or("no festival".to_string())?;
  Ok(opt(f.next(i(a[2])).map(|f| r_lf(&f))))
}

fn q_sf_idx(a: &[i64]) -> Result<String, String> {
  Ok(opt(SolarFestival::from_index(i(a[0]), u(a[1])).map(|f| r_sf(&f))))
}

fn q_sf_ymd(a: &[i64]) -> Result<String, String> {
  Ok(opt(SolarFestival::from_ymd(i(a[0]), u(a[1]), u(a[2])).map(|f| r_sf(&f))))
}

fn q_hol_ymd(a: &[i64]) -> Result<String, String> {
  Ok(opt(LegalHoliday::from_ymd(i(a[0]), u(a[1]), u(a[2])).map(|h| r_hol(&h))))
}

fn q_hol_next(a: &[i64]) -> Result<String, String> {
  let h = LegalHoliday::from_ymd(i(a[0]), u(a[1]), u(a[2])).ok_or("no holiday".to_string())?;
  Ok(opt(h.next(i(a[3])).map(|h| r_hol(&h))))
}

fn q_ec_times(a: &[i64]) -> Result<String, String> {
  let t = SolarTime::from_ymd_hms(i(a[0]), u(a[1]), u(a[2]), u(a[3]), u(a[4]), u(a[5]));
  let e = t.get_lunar_hour().get_eight_char();
  Ok(format!("{} {}", r_ec(&e), join(&e.get_solar_times(i(a[6]), i(a[7])), |t| r_st(t))))
}

fn gender(x: i64) -> Gender {
  if x == 0 {
    Gender::WOMAN
  } else {
    Gender::MAN
  }
}

pub fn r_cl(c: &ChildLimit) -> String {
  format!("CL({} {} fwd={} y={} m={} d={} h={} mi={} start={} end={} age={}..{} scy={}..{})", r_ec(&c.get_eight_char()), c.get_gender(), c.is_forward(), c.get_year_count(), c.get_month_count(), c.get_day_count(), c.get_hour_count(), c.get_minute_count(), r_st(&c.get_start_time()), r_st(&c.get_end_time()), c.get_start_age(), c.get_end_age(), c.get_start_sixty_cycle_year(), c.get_end_sixty_cycle_year())
}

fn q_cl(a: &[i64]) -> Result<String, String> {
  let t = SolarTime::from_ymd_hms(i(a[0]), u(a[1]), u(a[2]), u(a[3]), u(a[4]), u(a[5]));
  let c = ChildLimit::from_solar_time(t, gender(a[6]));
  Ok(r_cl(&c))
}

fn q_cl_fortune(a: &[i64]) -> Result<String, String> {
  let t = SolarTime::from_ymd_hms(i(a[0]), u(a[1]), u(a[2]), u(a[3]), u(a[4]), u(a[5]));
  let c = ChildLimit::from_solar_time(t, gender(a[6]));
  let d: DecadeFortune = c.get_start_decade_fortune().next(i(a[7]));
  let f: Fortune = c.get_start_fortune().next(i(a[7]));
  Ok(format!("DF({} {} age={}..{} scy={}..{} sc={}) F({} age={} scy={} sc={})", d.get_name(), d.get_index(), d.get_start_age(), d.get_end_age(), d.get_start_sixty_cycle_year(), d.get_end_sixty_cycle_year(), d.get_sixty_cycle(), f.get_name(), f.get_age(), f.get_sixty_cycle_year(), f.get_sixty_cycle()))
}

fn q_term(a: &[i64]) -> Result<String, String> {
  let t = SolarTerm::from_index(i(a[0]), i(a[1]));
  Ok(format!("{} {} jie={}", r_term(&t), r_st(&t.get_julian_day().get_solar_time()), t.is_jie()))
}

fn q_term_next(a: &[i64]) -> Result<String, String> {
  Ok(r_term(&SolarTerm::from_index(i(a[0]), i(a[1])).next(i(a[2]))))
}

fn q_jd(a: &[i64]) -> Result<String, String> {
  let j = JulianDay::from_julian_day(a[0] as f64 + a[1] as f64 / 1000.0);
  Ok(format!("{} {} {}", r_sd(&j.get_solar_day()), r_st(&j.get_solar_time()), j.get_week()))
}

fn q_cycle(a: &[i64]) -> Result<String, String> {
  let n = i(a[1]);
  Ok(match a[0] {
    0 => {
      let h = HeavenStem::from_index(n);
      format!("{} {} {} {} {} {}", h, h.get_element(), h.get_direction(), h.get_joy_direction(), h.get_combine(), h.get_ten_star(HeavenStem::from_index(n * 7 + 3)))
    }
    1 => {
      let e = EarthBranch::from_index(n);
      format!("{} {} {} {} {} {} {}", e, e.get_element(), e.get_zodiac(), e.get_direction(), e.get_opposite(), e.get_harm(), e.get_combine())
    }
    2 => {
      let s = SixtyCycle::from_index(n);
      format!("{} {} {} {}", s, s.get_sound(), s.get_ten(), join(&s.get_extra_earth_branches(), |e| e.to_string()))
    }
    3 => format!("{} {}", NineStar::from_index(n), NineStar::from_index(n).get_direction()),
    4 => format!("{} {} {}", Zodiac::from_index(n), Animal::from_index(n), Constellation::from_index(n)),
    5 => format!("{} {} {} {}", Direction::from_index(n), Duty::from_index(n), Element::from_index(n), Phase::from_index(n)),
    6 => format!("{} {} {} {}", Sound::from_index(n), Ten::from_index(n), Terrain::from_index(n), Week::from_index(n)),
    _ => format!("{} {}", God::from_index(n), Taboo::from_index(n)),
  })
}

fn q_sw(a: &[i64]) -> Result<String, String> {
  let w = SolarWeek::new(i(a[0]), u(a[1]), u(a[2]), u(a[3]))?;
  Ok(format!("{} idx={} iy={} first={} {}", w, w.get_index(), w.get_index_in_year(), r_sd(&w.get_first_day()), join(&w.get_days(), |d| r_sd(d))))
}

fn q_sw_next(a: &[i64]) -> Result<String, String> {
  let w = SolarWeek::from_ym(i(a[0]), u(a[1]), u(a[2]), u(a[3])).next(i(a[4]));
  Ok(format!("{} {} {} idx={} first={}", w.get_year(), w.get_month(), w, w.get_index(), r_sd(&w.get_first_day())))
}

fn q_sm_days(a: &[i64]) -> Result<String, String> {
  let m = SolarMonth::new(i(a[0]), u(a[1]))?;
  let n = m.next(i(a[2]));
  Ok(format!("{} -> {} {} {} season={} {}", m, n.get_year(), n.get_month(), n.get_index_in_year(), n.get_season(), join(&n.get_days(), |d| r_sd(d))))
}

fn q_ss(a: &[i64]) -> Result<String, String> {
  let s = SolarSeason::new(i(a[0]), u(a[1]))?;
  let h = SolarHalfYear::new(i(a[0]), u(a[1]) / 2)?;
  Ok(format!("{} {} {} {} {} {}", s, join(&s.get_months(), |m| m.to_string()), s.next(i(a[2])), h, join(&h.get_seasons(), |x| x.to_string()), h.next(i(a[2]))))
}

fn q_taboo(a: &[i64]) -> Result<String, String> {
  let m = SixtyCycle::from_index(i(a[0]));
  let d = SixtyCycle::from_index(i(a[1]));
  Ok(format!("{} {} {}", gods(&God::get_day_gods(m.clone(), d.clone())), taboos(&Taboo::get_day_recommends(m.clone(), d.clone())), taboos(&Taboo::get_day_avoids(m, d))))
}

fn q_taboo_hour(a: &[i64]) -> Result<String, String> {
  let d = SixtyCycle::from_index(i(a[0]));
  let h = SixtyCycle::from_index(i(a[1]));
  Ok(format!("{} {}", taboos(&Taboo::get_hour_recommends(d.clone(), h.clone())), taboos(&Taboo::get_hour_avoids(d, h))))
}

/// The four shipped child-limit strategies, called directly (not through the provider mutex).
fn q_provider(a: &[i64]) -> Result<String, String> {
  let t = SolarTime::from_ymd_hms(i(a[1]), u(a[2]), u(a[3]), u(a[4]), u(a[5]), u(a[6]));
  let mut term: SolarTerm = t.get_term();
  if !term.is_jie() {
    term = term.next(-1);
  }
  if a[7] != 0 {
    term = term.next(2);
  }
  let info = match a[0] {
    0 => DefaultChildLimitProvider::new().get_info(t, term),
    1 => China95ChildLimitProvider::new().get_info(t, term),
    2 => LunarSect1ChildLimitProvider::new().get_info(t, term),
    _ => LunarSect2ChildLimitProvider::new().get_info(t, term),
  };
  Ok(format!("INFO(y={} m={} d={} h={} mi={} start={} end={})", info.get_year_count(), info.get_month_count(), info.get_day_count(), info.get_hour_count(), info.get_minute_count(), r_st(&info.get_start_time()), r_st(&info.get_end_time())))
}

fn q_star(a: &[i64]) -> Result<String, String> {
  let n = i(a[1]);
  Ok(match a[0] {
    0 => {
      let s = TwentyEightStar::from_index(n);
      format!("{} {} {} {} {} {}", s, s.get_seven_star(), s.get_land(), s.get_zone(), s.get_animal(), s.get_luck())
    }
    1 => {
      let s = NineStar::from_index(n);
      format!("{} {} {} {} {}", s, s.get_color(), s.get_element(), s.get_dipper(), s.get_direction())
    }
    2 => {
      let s = TwelveStar::from_index(n);
      format!("{} {} {}", s, s.get_ecliptic(), s.get_ecliptic().get_luck())
    }
    3 => PengZu::from_sixty_cycle(SixtyCycle::from_index(n)).to_string(),
    _ => {
      let k = KitchenGodSteed::from_lunar_year(n);
      format!("{} {} {} {} {} {} {} {} {} {} {} {} {} {}", k.get_mouse(), k.get_grass(), k.get_cattle(), k.get_flower(), k.get_dragon(), k.get_horse(), k.get_chicken(), k.get_silkworm(), k.get_pig(), k.get_field(), k.get_cake(), k.get_gold(), k.get_people_cakes(), k.get_people_hoes())
    }
  })
}

macro_rules! name_types {
  ($($t:ty),* $(,)?) => {
    pub const NAME_TYPES: &[&str] = &[$(stringify!($t)),*];

    fn name_of(ty: usize, n: isize) -> String {
      let mut k = 0usize;
      $(
        if ty == k {
          return <$t>::from_index(n).get_name();
        }
        k += 1;
      )*
      let _ = k;
      String::new()
    }

    /// number of names in the table of type `ty`
    pub fn name_table_size(ty: usize) -> usize {
      let mut k = 0usize;
      $(
        if ty == k {
          return <$t>::from_index(0).get_size();
        }
        k += 1;
      )*
      let _ = k;
      0
    }

    fn by_name(ty: usize, name: &str) -> String {
      let mut k = 0usize;
      $(
        if ty == k {
          let x = <$t>::from_name(name);
          return format!("{} {} {}", NAME_TYPES[ty], x.get_name(), x.get_index());
        }
        k += 1;
      )*
      let _ = k;
      String::new()
    }
  };
}

name_types!(
  tyme4rs::tyme::culture::Animal, tyme4rs::tyme::culture::Beast, Constellation, Direction, Duty, Element, God, tyme4rs::tyme::culture::Land, tyme4rs::tyme::culture::Luck, Phase,
  tyme4rs::tyme::culture::Sixty, Sound, Taboo, Ten, Terrain, tyme4rs::tyme::culture::Twenty, Week, Zodiac, tyme4rs::tyme::culture::Zone,
  tyme4rs::tyme::culture::dog::Dog, tyme4rs::tyme::culture::nine::Nine, tyme4rs::tyme::culture::plumrain::PlumRain, tyme4rs::tyme::culture::phenology::Phenology,
  tyme4rs::tyme::culture::phenology::ThreePhenology, tyme4rs::tyme::culture::peng_zu::PengZuHeavenStem, tyme4rs::tyme::culture::peng_zu::PengZuEarthBranch,
  tyme4rs::tyme::culture::ren::minor::MinorRen, tyme4rs::tyme::culture::star::nine::Dipper, NineStar, tyme4rs::tyme::culture::star::seven::SevenStar,
  tyme4rs::tyme::culture::star::six::SixStar, tyme4rs::tyme::culture::star::ten::TenStar, tyme4rs::tyme::culture::star::twelve::Ecliptic, TwelveStar, TwentyEightStar,
  HeavenStem, EarthBranch, SixtyCycle, tyme4rs::tyme::lunar::LunarSeason,
);

/// String-keyed constructors of all 39 name-table types: `from_name` with a name of the type's
/// own table (taken from `from_index`), with garbage, with the empty string, or with a name
/// taken from ANOTHER type's table (which may or may not exist in this one).
/// a = [type, index, flavour, other type].
fn q_name(a: &[i64]) -> Result<String, String> {
  let ty = (a[0].rem_euclid(NAME_TYPES.len() as i64)) as usize;
  let n = i(a[1]);
  let name = match a[2] {
    0 => name_of(ty, n),
    1 => "无此名".to_string(),
    2 => name_of((a[3].rem_euclid(NAME_TYPES.len() as i64)) as usize, n),
    _ => String::new(),
  };
  Ok(by_name(ty, &name))
}

/// Other string-keyed entry points. a = [which, index, flavour, year].
fn q_name2(a: &[i64]) -> Result<String, String> {
  let n = i(a[1]);
  let pick = |good: String| -> String {
    match a[2] {
      0 => good,
      1 => "无此名".to_string(),
      2 => Zodiac::from_index(n).get_name(),
      _ => String::new(),
    }
  };
  Ok(match a[0] {
    0 => {
      // Result-returning: a refusal by Err
      let name = pick(SolarTerm::from_index(2000, n).get_name());
      r_term(&SolarTerm::new(i(a[3]), &name)?)
    }
    1 => {
      let name = pick(SolarTerm::from_index(2000, n).get_name());
      r_term(&SolarTerm::from_name(i(a[3]), &name))
    }
    2 => {
      let g = Gender::from_name(&pick(gender(n as i64 & 1).get_name()))?;
      format!("{} {:?}", g, Gender::from_code(u(a[1])).map(|x| x.get_name()))
    }
    _ => {
      let e = EightChar::new(&pick(SixtyCycle::from_index(n).get_name()), &SixtyCycle::from_index(n + 14).get_name(), &SixtyCycle::from_index(n + 27).get_name(), &SixtyCycle::from_index(n + 40).get_name());
      format!("{} {}", r_ec(&e), join(&e.get_solar_times(i(a[3]), i(a[3]) + 60), |t| r_st(t)))
    }
  })
}

pub static KINDS: &[KindDef] = &[
  KindDef { name: "LM.from_ym", arity: 2, exec: q_lm_from_ym, family: FAM_LM, cost: 0 },
  KindDef { name: "LM.new", arity: 2, exec: q_lm_new, family: FAM_LM, cost: 0 },
  KindDef { name: "LM.next", arity: 3, exec: q_lm_next, family: FAM_LM, cost: 0 },
  KindDef { name: "LM.days", arity: 2, exec: q_lm_days, family: FAM_LM, cost: 2 },
  KindDef { name: "LM.weeks", arity: 3, exec: q_lm_weeks, family: FAM_LM, cost: 1 },
  KindDef { name: "LM.misc", arity: 2, exec: q_lm_misc, family: FAM_LM, cost: 0 },
  KindDef { name: "LY.months", arity: 1, exec: q_ly_months, family: FAM_LY, cost: 1 },
  KindDef { name: "LY.misc", arity: 1, exec: q_ly_misc, family: FAM_LY, cost: 0 },
  KindDef { name: "LW.from_ym", arity: 4, exec: q_lw_from_ym, family: FAM_LW, cost: 1 },
  KindDef { name: "LW.next", arity: 5, exec: q_lw_next, family: FAM_LW, cost: 1 },
  KindDef { name: "LD.new", arity: 3, exec: q_ld_new, family: FAM_LD, cost: 0 },
  KindDef { name: "LD.get", arity: 4, exec: q_ld_get, family: FAM_LD, cost: 1 },
  KindDef { name: "LD.next", arity: 4, exec: q_ld_next, family: FAM_LD, cost: 0 },
  KindDef { name: "LH.new", arity: 6, exec: q_lh_new, family: FAM_LH, cost: 0 },
  KindDef { name: "LH.get", arity: 7, exec: q_lh_get, family: FAM_LH, cost: 1 },
  KindDef { name: "LH.next", arity: 7, exec: q_lh_next, family: FAM_LH, cost: 0 },
  KindDef { name: "SD.new", arity: 3, exec: q_sd_new, family: FAM_SD, cost: 0 },
  KindDef { name: "SD.get", arity: 4, exec: q_sd_get, family: FAM_SD, cost: 1 },
  KindDef { name: "SD.next", arity: 4, exec: q_sd_next, family: FAM_SD, cost: 0 },
  KindDef { name: "SD.sub", arity: 6, exec: q_sd_sub, family: FAM_SD, cost: 0 },
  KindDef { name: "ST.get", arity: 7, exec: q_st_get, family: FAM_ST, cost: 1 },
  KindDef { name: "ST.next", arity: 7, exec: q_st_next, family: FAM_ST, cost: 0 },
  KindDef { name: "SM.misc", arity: 3, exec: q_sm_misc, family: FAM_SD, cost: 0 },
  KindDef { name: "SY.misc", arity: 1, exec: q_sy_misc, family: FAM_SD, cost: 0 },
  KindDef { name: "SCY.months", arity: 1, exec: q_scy_months, family: FAM_SC, cost: 1 },
  KindDef { name: "SCM.first", arity: 2, exec: q_scm_first, family: FAM_SC, cost: 1 },
  KindDef { name: "SCM.days", arity: 2, exec: q_scm_days, family: FAM_SC, cost: 2 },
  KindDef { name: "SCD.next", arity: 4, exec: q_scd_next, family: FAM_SC, cost: 1 },
  KindDef { name: "SCH.next", arity: 7, exec: q_sch_next, family: FAM_SC, cost: 1 },
  KindDef { name: "LF.idx", arity: 2, exec: q_lf_idx, family: FAM_FE, cost: 1 },
  KindDef { name: "LF.ymd", arity: 3, exec: q_lf_ymd, family: FAM_FE, cost: 1 },
  KindDef { name: "LF.next", arity: 3, exec: q_lf_next, family: FAM_FE, cost: 1 },
  KindDef { name: "SF.idx", arity: 2, exec: q_sf_idx, family: FAM_FE, cost: 1 },
  KindDef { name: "SF.ymd", arity: 3, exec: q_sf_ymd, family: FAM_FE, cost: 1 },
  KindDef { name: "HOL.ymd", arity: 3, exec: q_hol_ymd, family: FAM_FE, cost: 1 },
  KindDef { name: "HOL.next", arity: 4, exec: q_hol_next, family: FAM_FE, cost: 1 },
  KindDef { name: "EC.times", arity: 8, exec: q_ec_times, family: FAM_EC, cost: 2 },
  KindDef { name: "CL", arity: 7, exec: q_cl, family: FAM_EC, cost: 1 },
  KindDef { name: "CL.fortune", arity: 8, exec: q_cl_fortune, family: FAM_EC, cost: 1 },
  KindDef { name: "TERM", arity: 2, exec: q_term, family: FAM_SD, cost: 0 },
  KindDef { name: "TERM.next", arity: 3, exec: q_term_next, family: FAM_SD, cost: 0 },
  KindDef { name: "JD", arity: 2, exec: q_jd, family: FAM_SD, cost: 0 },
  KindDef { name: "CYCLE", arity: 2, exec: q_cycle, family: FAM_SC, cost: 0 },
  KindDef { name: "LD.step", arity: 4, exec: q_ld_step, family: FAM_LD, cost: 0 },
  KindDef { name: "LH.step", arity: 7, exec: q_lh_step, family: FAM_LH, cost: 0 },
  KindDef { name: "LD.hour", arity: 4, exec: q_ld_hour, family: FAM_LD, cost: 1 },
  KindDef { name: "EC.mk", arity: 5, exec: q_ec_mk, family: FAM_EC, cost: 0 },
  KindDef { name: "EC.get", arity: 6, exec: q_ec_get, family: FAM_EC, cost: 2 },
  KindDef { name: "EC.cmp", arity: 10, exec: q_ec_cmp, family: FAM_EC, cost: 0 },
  KindDef { name: "CLH.new", arity: 7, exec: q_clh_new, family: FAM_EC, cost: 1 },
  KindDef { name: "CLH.get", arity: 8, exec: q_clh_get, family: FAM_EC, cost: 1 },
  KindDef { name: "CLH.cmp", arity: 14, exec: q_clh_cmp, family: FAM_EC, cost: 1 },
  KindDef { name: "DF.new", arity: 8, exec: q_df_new, family: FAM_EC, cost: 1 },
  KindDef { name: "DF.get", arity: 9, exec: q_df_get, family: FAM_EC, cost: 1 },
  KindDef { name: "DF.step", arity: 9, exec: q_df_step, family: FAM_EC, cost: 1 },
  KindDef { name: "DF.cmp", arity: 16, exec: q_df_cmp, family: FAM_EC, cost: 1 },
  KindDef { name: "FT.new", arity: 8, exec: q_ft_new, family: FAM_EC, cost: 1 },
  KindDef { name: "FT.get", arity: 9, exec: q_ft_get, family: FAM_EC, cost: 1 },
  KindDef { name: "FT.step", arity: 9, exec: q_ft_step, family: FAM_EC, cost: 1 },
  KindDef { name: "FT.cmp", arity: 16, exec: q_ft_cmp, family: FAM_EC, cost: 1 },
  KindDef { name: "SCM.new", arity: 2, exec: q_scm_new, family: FAM_SC, cost: 1 },
  KindDef { name: "SCM.get", arity: 3, exec: q_scm_get, family: FAM_SC, cost: 1 },
  KindDef { name: "SCM.step", arity: 3, exec: q_scm_step, family: FAM_SC, cost: 1 },
  KindDef { name: "SCM.cmp", arity: 4, exec: q_scm_cmp, family: FAM_SC, cost: 1 },
  KindDef { name: "LF.new", arity: 2, exec: q_lfh_new, family: FAM_FE, cost: 1 },
  KindDef { name: "LF.get", arity: 3, exec: q_lfh_get, family: FAM_FE, cost: 1 },
  KindDef { name: "LF.step", arity: 3, exec: q_lfh_step, family: FAM_FE, cost: 1 },
  KindDef { name: "LF.cmp", arity: 4, exec: q_lfh_cmp, family: FAM_FE, cost: 1 },
  KindDef { name: "LD.cmp", arity: 6, exec: q_ld_cmp, family: FAM_LD, cost: 0 },
  KindDef { name: "LH.cmp", arity: 12, exec: q_lh_cmp, family: FAM_LH, cost: 0 },
  KindDef { name: "SCD.cmp", arity: 6, exec: q_scd_cmp, family: FAM_SC, cost: 1 },
  KindDef { name: "SCH.cmp", arity: 12, exec: q_sch_cmp, family: FAM_SC, cost: 1 },
  KindDef { name: "LW.cmp", arity: 8, exec: q_lw_cmp, family: FAM_LW, cost: 1 },
  KindDef { name: "TERM.cmp", arity: 4, exec: q_term_cmp, family: FAM_SD, cost: 0 },
  KindDef { name: "SCD.new", arity: 3, exec: q_scd_new, family: FAM_SC, cost: 1 },
  KindDef { name: "SCH.new", arity: 6, exec: q_sch_new, family: FAM_SC, cost: 1 },
  KindDef { name: "LW.new", arity: 4, exec: q_lw_new, family: FAM_LW, cost: 0 },
  KindDef { name: "TERM.new", arity: 2, exec: q_term_new, family: FAM_SD, cost: 0 },
  KindDef { name: "SCD.get", arity: 4, exec: q_scd_get, family: FAM_SC, cost: 1 },
  KindDef { name: "SCH.get", arity: 7, exec: q_sch_get, family: FAM_SC, cost: 1 },
  KindDef { name: "LW.get", arity: 5, exec: q_lw_get, family: FAM_LW, cost: 1 },
  KindDef { name: "TERM.get", arity: 3, exec: q_term_get, family: FAM_SD, cost: 0 },
  KindDef { name: "LW.step", arity: 5, exec: q_lw_step, family: FAM_LW, cost: 1 },
  KindDef { name: "SCD.hour", arity: 4, exec: q_scd_hour, family: FAM_SC, cost: 1 },
  KindDef { name: "NAME", arity: 4, exec: q_name, family: FAM_SC, cost: 0 },
  KindDef { name: "NAME2", arity: 4, exec: q_name2, family: FAM_SC, cost: 1 },
  KindDef { name: "SW", arity: 4, exec: q_sw, family: FAM_SD, cost: 0 },
  KindDef { name: "SW.next", arity: 5, exec: q_sw_next, family: FAM_SD, cost: 0 },
  KindDef { name: "SM.days", arity: 3, exec: q_sm_days, family: FAM_SD, cost: 1 },
  KindDef { name: "SS", arity: 3, exec: q_ss, family: FAM_SD, cost: 0 },
  KindDef { name: "TABOO", arity: 2, exec: q_taboo, family: FAM_SC, cost: 1 },
  KindDef { name: "TABOO.hour", arity: 2, exec: q_taboo_hour, family: FAM_SC, cost: 1 },
  KindDef { name: "PROVIDER", arity: 8, exec: q_provider, family: FAM_EC, cost: 1 },
  KindDef { name: "STAR", arity: 2, exec: q_star, family: FAM_SC, cost: 0 },
];

pub fn kind_by_name(name: &str) -> Option<usize> {
  KINDS.iter().position(|k| k.name == name)
}

pub const K_LM_FROM_YM: usize = 0;
pub const K_LM_NEW: usize = 1;
pub const K_LD_GET: usize = 11;
pub const K_LH_GET: usize = 14;

impl Query {
  pub fn new(kind: usize, args: Vec<i64>) -> Self {
    Self { kind, args }
  }

  pub fn key(&self) -> String {
    let mut s = String::from(KINDS[self.kind].name);
    for a in &self.args {
      s.push(' ');
      s.push_str(&a.to_string());
    }
    s
  }

  pub fn parse(tokens: &[&str]) -> Result<Query, String> {
    if tokens.is_empty() {
      return Err("empty query".to_string());
    }
    let kind = kind_by_name(tokens[0]).ok_or(format!("unknown query kind {}", tokens[0]))?;
    let mut args = Vec::new();
    for t in &tokens[1..] {
      args.push(t.parse::<i64>().map_err(|e| format!("bad argument {}: {}", t, e))?);
    }
    if args.len() != KINDS[kind].arity {
      return Err(format!("{} takes {} arguments, got {}", tokens[0], KINDS[kind].arity, args.len()));
    }
    Ok(Query { kind, args })
  }

  /// Evaluate. Panics are caught and become refusals, except the simulator's own abort payload.
  pub fn eval(&self) -> Outcome {
    let f = KINDS[self.kind].exec;
    let args = &self.args;
    run_guarded(|| f(args))
  }
}

pub fn run_guarded<F: FnOnce() -> Result<String, String>>(f: F) -> Outcome {
  let result = {
    let _scope = crate::sched::lib_scope();
    catch_unwind(AssertUnwindSafe(f))
  };
  match result {
    Ok(Ok(s)) => Outcome::Ok(s),
    Ok(Err(e)) => Outcome::Refused(format!("err: {}", e)),
    Err(p) => {
      if p.downcast_ref::<AbortRun>().is_some() {
        std::panic::resume_unwind(p);
      }
      let msg = p.downcast_ref::<String>().cloned().or_else(|| p.downcast_ref::<&str>().map(|s| s.to_string())).unwrap_or_else(|| "panic".to_string());
      Outcome::Refused(format!("panic: {}", msg))
    }
  }
}
