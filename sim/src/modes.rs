use std::collections::{HashMap, HashSet};
use std::fmt::Write as _;
use std::time::{Duration, Instant};

use crate::exec::{exec_run, exec_run_opt, reset_library, EvalRec};
use crate::gen::{draw_swarm, gen_pool, gen_run, gen_stress_run, GenStats, Leap, ERA_NAMES};
use crate::query::*;
use crate::rng::{fnv, mix, Rng, FNV0};
use crate::sched::{install_hooks, EV_NAMES};
use crate::script::{parse_runs, trace_to_text};

fn arg<'a>(args: &'a [String], name: &str) -> Option<&'a str> {
  let mut i = 0;
  while i + 1 < args.len() {
    if args[i] == name {
      return Some(args[i + 1].as_str());
    }
    i += 1;
  }
  None
}

fn arg_u64(args: &[String], name: &str, default: u64) -> u64 {
  arg(args, name).map(|s| s.parse::<u64>().unwrap_or_else(|_| panic!("bad {}", name))).unwrap_or(default)
}

fn flag(args: &[String], name: &str) -> bool {
  args.iter().any(|a| a == name)
}

pub fn esc(s: &str) -> String {
  let mut o = String::with_capacity(s.len() + 2);
  for c in s.chars() {
    match c {
      '"' => o.push_str("\\\""),
      '\\' => o.push_str("\\\\"),
      '\n' => o.push_str("\\n"),
      '\r' => o.push_str("\\r"),
      '\t' => o.push_str("\\t"),
      c if (c as u32) < 0x20 => {
        let _ = write!(o, "\\u{:04x}", c as u32);
      }
      c => o.push(c),
    }
  }
  o
}

fn jlist_u64(v: &[u64]) -> String {
  let mut s = String::from("[");
  for (i, x) in v.iter().enumerate() {
    if i > 0 {
      s.push(',');
    }
    let _ = write!(s, "{}", x);
  }
  s.push(']');
  s
}

fn jmap(m: &[(String, u64)]) -> String {
  let mut s = String::from("{");
  for (i, (k, v)) in m.iter().enumerate() {
    if i > 0 {
      s.push(',');
    }
    let _ = write!(s, "\"{}\":{}", esc(k), v);
  }
  s.push('}');
  s
}

fn write_out(path: Option<&str>, text: &str) {
  match path {
    Some(p) => std::fs::write(p, text).unwrap_or_else(|e| {
      eprintln!("cannot write {}: {}", p, e);
      std::process::exit(2);
    }),
    None => println!("{}", text),
  }
}

#[derive(Clone)]
struct Violation {
  obligation: &'static str,
  key: String,
  detail: String,
  run: usize,
  /// index of the first run of the history given (inclusive)
  history_from: usize,
  /// explicit history (instead of runs history_from..=run)
  history_text: Option<String>,
}

struct Pending {
  key: String,
  class: char,
  digest: u64,
  run: usize,
  tid: u8,
  op: u16,
  from_handle: bool,
}

fn cold_script(key: &str) -> String {
  format!("run threads=1 policy=seq sched=0 hash=0 reset=1\nt0 q {}\nend\n", key)
}

/// The answer to `key` right after a restart (memo cleared, poison cleared, default hash seed),
/// obtained as a one-operation run of its own under the simulator.
fn cold_eval(key: &str, watchdog: Duration) -> Result<(char, u64), String> {
  let runs = parse_runs(&cold_script(key)).map_err(|e| format!("harness-panic: cold script: {}", e))?;
  let out = exec_run(&runs[0], false, false, watchdog);
  if let Some(a) = &out.result.abort {
    return Err(a.clone());
  }
  match out.evals.first() {
    Some(e) => Ok((e.class, e.digest)),
    None => Err("harness-panic: cold evaluation produced no record".to_string()),
  }
}

fn lunar_state_hash() -> (u64, usize, bool, bool, bool) {
  let (keys, p1, p2) = tyme4rs::tyme::lunar::verif_state();
  let p3 = tyme4rs::tyme::eightchar::verif_state();
  let mut h = FNV0;
  for k in &keys {
    h = fnv(h, k.as_bytes());
    h = fnv(h, &[0]);
  }
  h = fnv(h, &[p1 as u8, p2 as u8, p3 as u8]);
  (h, keys.len(), p1, p2, p3)
}

/// Names for the library's three mutexes, found by running three one-operation runs and
/// looking at which lock addresses each of them touches first.
fn calibrate_locks(watchdog: Duration) -> Vec<usize> {
  let mut known: Vec<usize> = Vec::new();
  for q in ["LM.from_ym 2000 1", "LH.get 2000 1 1 0 0 0 3", "CL 2000 1 1 0 0 0 1"] {
    let text = format!("run threads=1 policy=seq sched=0 hash=0 reset=1\nt0 q {}\nend\n", q);
    let runs = parse_runs(&text).expect("calibration script");
    let out = exec_run(&runs[0], false, false, watchdog);
    let fresh: Vec<usize> = out.result.lock_addrs.iter().cloned().filter(|a| !known.contains(a)).collect();
    known.push(fresh.first().cloned().unwrap_or(0));
  }
  reset_library();
  known
}

pub const LOCK_NAMES: [&str; 4] = ["S1_month_memo", "S2_eight_char_provider", "S3_child_limit_provider", "other"];

pub fn explore(args: &[String]) -> i32 {
  let seed = arg_u64(args, "--seed", 20260926);
  let worker = arg_u64(args, "--worker", 0);
  let max_runs = arg_u64(args, "--runs", 1000);
  let seconds = arg_u64(args, "--seconds", 0);
  let conc = arg_u64(args, "--conc", 30);
  let pool_size = arg_u64(args, "--pool", 4096) as usize;
  let first_run = arg_u64(args, "--first-run", 0);
  let digest = flag(args, "--digest");
  let out = arg(args, "--out");
  let watchdog = Duration::from_secs(arg_u64(args, "--watchdog", 60));
  let t0 = Instant::now();

  // every lazily built map of this process is laid out under a seed of its own, as in a real
  // deployment where RandomState differs per process (set before the library is first touched)
  tyme4rs::tyme::verif::set_hash_seed(mix(mix(seed, 0x696e6974), worker) | 1);
  install_hooks();
  let report_key: Option<String> = arg(args, "--report-key").map(|s| s.to_string());
  let report_run: Option<u64> = arg(args, "--report-run").map(|s| s.parse::<u64>().unwrap_or(0));
  let reset_pct = arg_u64(args, "--reset-pct", 75);
  // --prewarm N: the worker's first runs are single-thread histories of N distinct requests in all
  // (months, solar terms, days all over the year range) and nothing is restarted afterwards, so
  // that every later multi-thread run meets structures that already hold N entries
  let prewarm = arg_u64(args, "--prewarm", 0);
  let pre_runs = ((prewarm + 4095) / 4096) as usize;
  let stress = flag(args, "--stress");
  let sample_fresh = arg_u64(args, "--sample-fresh", 48) as usize;
  let mut fresh_sample: Vec<(String, char, u64, u64)> = Vec::new();
  let mut fresh_seen = 0u64;
  let mut sample_rng = Rng::new(mix(mix(seed, 0x6672657368), worker));
  let lock_cal = calibrate_locks(watchdog);
  let lock_slot = |addr: usize| -> usize { lock_cal.iter().position(|a| *a == addr && addr != 0).unwrap_or(3) };
  let leap = Leap::build();
  crate::gen::build_holidays();
  let pool = gen_pool(seed, pool_size, &leap);
  let pool_keys: HashSet<String> = pool.iter().map(|q| q.key()).collect();

  let mut table: HashMap<String, (char, u64, usize)> = HashMap::new();
  let mut run_texts: Vec<String> = Vec::new();
  // for every run, the index of the latest run at or before it that started from a restart
  let mut reset_at: Vec<usize> = Vec::new();
  let mut violations: Vec<Violation> = Vec::new();
  let mut violated_keys: HashSet<String> = HashSet::new();
  let mut gs = GenStats { faults_by_class: [0; 6], twins: 0, reasks: 0, pool_ops: 0, handle_ops: 0, sandwiches: 0 };

  let mut runs = 0u64;
  let mut evaluations = 0u64;
  let mut comparisons = 0u64;
  let mut r_checks = 0u64;
  let mut refusals_err = 0u64;
  let mut refusals_panic = 0u64;
  let mut refusals_poison = 0u64;
  let mut handle_evals = 0u64;
  let mut by_policy: HashMap<String, u64> = HashMap::new();
  let mut by_threads: HashMap<String, u64> = HashMap::new();
  let mut by_era: HashMap<String, u64> = HashMap::new();
  let mut steps = 0u64;
  let mut decisions = 0u64;
  let mut switches = 0u64;
  let mut blocked = 0u64;
  let mut lock_acq = 0u64;
  let mut unwinds_by_lock = [0u64; 4];
  let mut poisoned_acq_by_lock = [0u64; 4];
  let mut unwind_while_waiter = 0u64;
  let mut starvation = 0u64;
  let mut parks = 0u64;
  let mut parked_steps = 0u64;
  let mut max_op_steps = 0u64;
  let mut max_held = 0u64;
  let mut resets = 0u64;
  let mut warm_runs = 0u64;
  let mut fault_free_runs = 0u64;
  let mut faulty_runs = 0u64;
  let mut evals_fault_free = 0u64;
  let mut evals_faulty = 0u64;
  let mut memo_warm_reask = 0u64;
  let mut memo_cold_ask = 0u64;
  let mut valid_after_refusal = 0u64;
  let mut valid_after_lock_unwind = 0u64;
  let mut same_month_after_refusal = 0u64;
  let mut twin_pairs_in_run = 0u64;
  let mut log_hashes: HashSet<u64> = HashSet::new();
  let mut end_states: HashSet<u64> = HashSet::new();
  let mut sched_states: HashSet<u64> = HashSet::new();
  let mut nontrivial: HashSet<u64> = HashSet::new();
  let mut max_cache = 0usize;
  let mut samples: Vec<String> = Vec::new();
  let mut digest_lines: Vec<String> = Vec::new();
  let mut last_reset_run = 0usize;
  // since the last reset:
  let mut lm_asked_since_reset: HashSet<String> = HashSet::new();
  let mut refusal_since_reset = false;
  let mut unwind_since_reset = false;
  let mut refused_months_since_reset: HashSet<(i64, i64)> = HashSet::new();
  let mut harness_error: Option<String> = None;
  let mut cold: HashMap<String, (char, u64)> = HashMap::new();
  let mut pending: Vec<Pending> = Vec::new();
  let mut cold_evaluations = 0u64;
  let mut cold_comparisons = 0u64;
  let mut stop_worker = false;
  let mut free_runs = 0u64;
  let mut hung = false;
  let mut alloc_yields = 0u64;
  let mut runs_with_alloc = 0u64;

  // Compare every evaluation made since the last restart with the answer the same query gets
  // right after a restart. Runs only at points where the next run starts with a restart anyway.
  macro_rules! cold_phase {
    () => {
      let mut todo: Vec<String> = Vec::new();
      for p in &pending {
        if !cold.contains_key(&p.key) && !todo.contains(&p.key) {
          todo.push(p.key.clone());
        }
      }
      for k in todo {
        match cold_eval(&k, watchdog) {
          Ok(a) => {
            cold_evaluations += 1;
            cold.insert(k, a);
          }
          Err(why) => {
            if why.starts_with("watchdog") {
              hung = true;
            }
            if why.starts_with("harness-panic") {
              harness_error = Some(format!("{} in the cold evaluation of `{}` (worker {}, seed {})", why, k, worker, seed));
            } else {
              violations.push(Violation { obligation: "P", key: String::new(), detail: why, run: run_texts.len().saturating_sub(1), history_from: 0, history_text: Some(cold_script(&k)) });
            }
            stop_worker = true;
            break;
          }
        }
      }
      if !stop_worker {
        for p in pending.drain(..) {
          if let Some((c, d)) = cold.get(&p.key) {
            cold_comparisons += 1;
            if (*c != p.class || *d != p.digest) && !violated_keys.contains(&p.key) {
              violated_keys.insert(p.key.clone());
              violations.push(Violation { obligation: if p.from_handle { "V" } else { "A" }, key: p.key.clone(), detail: format!("run {} thread {} op {} gave class {} digest {:016x}; right after a restart the same query gives class {} digest {:016x}", p.run, p.tid, p.op, p.class, p.digest, c, d), run: p.run, history_from: p.run.saturating_sub(199), history_text: None });
            }
          }
        }
      }
    };
  }

  let mut r = first_run;
  loop {
    if runs >= max_runs || stop_worker {
      break;
    }
    if seconds > 0 && t0.elapsed().as_secs() >= seconds {
      break;
    }
    let run_seed = mix(mix(seed, worker.wrapping_add(1)), r);
    let mut rng = Rng::new(run_seed);
    let sw = draw_swarm(&mut rng, &leap, conc);
    let reset_draw = rng.below(100);
    let reset = run_texts.is_empty() || (prewarm == 0 && reset_draw < reset_pct);
    let script = if stress {
      gen_stress_run(&mut rng, &leap, reset)
    } else if run_texts.len() < pre_runs {
      crate::gen::gen_prewarm_run(&mut rng, (prewarm as usize - run_texts.len() * 4096).min(4096), reset)
    } else {
      gen_run(&mut rng, &sw, &pool, &leap, reset, &mut gs)
    };
    if reset && !pending.is_empty() {
      cold_phase!();
      if stop_worker || violations.len() >= 8 {
        break;
      }
    }
    if reset {
      resets += 1;
      last_reset_run = run_texts.len();
      lm_asked_since_reset.clear();
      refusal_since_reset = false;
      unwind_since_reset = false;
      refused_months_since_reset.clear();
    } else {
      warm_runs += 1;
    }
    let out_run = exec_run(&script, false, false, watchdog);
    let res = &out_run.result;
    let run_index = run_texts.len();
    reset_at.push(last_reset_run);
    run_texts.push(format!("# seed={} worker={} run={} run_seed={} era={} policy={}\n{}", seed, worker, r, run_seed, ERA_NAMES[sw.era as usize], script.policy.name(), script.to_text(if stress { None } else { Some(&res.trace) })));
    runs += 1;
    if res.free_run {
      free_runs += 1;
    }
    if let Some(why) = &res.abort {
      if why.starts_with("harness-panic") {
        harness_error = Some(format!("{} in run {} of worker {} (seed {})", why, r, worker, seed));
        break;
      }
      violations.push(Violation { obligation: "P", key: String::new(), detail: why.clone(), run: run_index, history_from: run_index.saturating_sub(199), history_text: None });
      hung = res.watchdog;
      break;
    }
    // statistics
    *by_policy.entry(script.policy.name()).or_insert(0) += 1;
    *by_threads.entry(format!("{}", script.threads.len())).or_insert(0) += 1;
    *by_era.entry(ERA_NAMES[sw.era as usize].to_string()).or_insert(0) += 1;
    steps += res.stats.steps;
    alloc_yields += res.stats.alloc_yields;
    if script.alloc_period > 0 {
      runs_with_alloc += 1;
    }
    decisions += res.stats.decisions;
    switches += res.stats.switches;
    blocked += res.stats.blocked_events;
    lock_acq += res.stats.lock_acquisitions;
    unwind_while_waiter += res.stats.unwind_while_waiter;
    starvation += res.stats.starvation_stretches;
    parks += res.stats.parks;
    parked_steps += res.stats.parked_steps;
    max_op_steps = max_op_steps.max(res.stats.max_op_steps);
    max_held = max_held.max(res.stats.max_held_locks);
    let mut run_unwinds = 0u64;
    for (l, n) in res.stats.unwinds_by_lock.iter().enumerate() {
      unwinds_by_lock[lock_slot(res.lock_addrs[l])] += n;
      run_unwinds += n;
    }
    for (l, n) in res.stats.poisoned_acq_by_lock.iter().enumerate() {
      poisoned_acq_by_lock[lock_slot(res.lock_addrs[l])] += n;
    }
    log_hashes.insert(res.log_hash);
    for s in &res.sched_states {
      sched_states.insert(*s);
    }
    // oracles
    let mut evals: Vec<&EvalRec> = out_run.evals.iter().collect();
    evals.sort_by_key(|e| e.seq.0);
    let mut run_refusals = 0u64;
    let mut run_comparisons = 0u64;
    let mut eval_hash = FNV0;
    let mut months_in_run: HashSet<(i64, i64)> = HashSet::new();
    for e in &evals {
      evaluations += 1;
      // (the requests of a pre-warm run only fill the library's memory; one in 16 of them is checked
      // against its cold answer, all months against the uncached constructor below)
      if run_index >= pre_runs || evaluations % 16 == 0 {
        pending.push(Pending { key: e.key.clone(), class: e.class, digest: e.digest, run: run_index, tid: e.tid, op: e.op, from_handle: e.from_handle });
      }
      // reservoir sample of evaluations, to be compared with a really fresh process by the driver
      fresh_seen += 1;
      if fresh_sample.len() < sample_fresh {
        fresh_sample.push((e.key.clone(), e.class, e.digest, r));
      } else if sample_fresh > 0 {
        let j = sample_rng.below(fresh_seen) as usize;
        if j < sample_fresh {
          fresh_sample[j] = (e.key.clone(), e.class, e.digest, r);
        }
      }
      if report_run == Some(r) && report_key.as_deref() == Some(e.key.as_str()) && !violated_keys.contains(&e.key) {
        violated_keys.insert(e.key.clone());
        violations.push(Violation { obligation: "X", key: e.key.clone(), detail: format!("reported evaluation: run {} thread {} op {} class {} digest {:016x}", run_index, e.tid, e.op, e.class, e.digest), run: run_index, history_from: run_index.saturating_sub(199), history_text: None });
      }
      eval_hash = fnv(eval_hash, e.key.as_bytes());
      eval_hash = fnv(eval_hash, &e.digest.to_le_bytes());
      if e.from_handle {
        handle_evals += 1;
      }
      if e.class == 'R' {
        run_refusals += 1;
      } else {
        if refusal_since_reset {
          valid_after_refusal += 1;
        }
        if unwind_since_reset {
          valid_after_lock_unwind += 1;
        }
      }
      // month-level probes
      let toks: Vec<&str> = e.key.split(' ').collect();
      if toks.len() >= 3 && (toks[0].starts_with("LM.") || toks[0].starts_with("LD.") || toks[0].starts_with("LH.") || toks[0].starts_with("LW.")) {
        if let (Ok(y), Ok(m)) = (toks[1].parse::<i64>(), toks[2].parse::<i64>()) {
          if e.class == 'R' {
            refused_months_since_reset.insert((y, m));
          } else if refused_months_since_reset.contains(&(y, m)) {
            same_month_after_refusal += 1;
          }
          if !months_in_run.contains(&(y, m)) {
            // digit twin of a month already seen in this run?
            let s = format!("{}{}", y, m);
            if months_in_run.iter().any(|(a, b)| format!("{}{}", a, b) == s || (*a == y && *b == -m)) {
              twin_pairs_in_run += 1;
            }
            months_in_run.insert((y, m));
          }
        }
      }
      if toks[0] == "LM.from_ym" {
        if lm_asked_since_reset.contains(&e.key) {
          memo_warm_reask += 1;
        } else {
          memo_cold_ask += 1;
          lm_asked_since_reset.insert(e.key.clone());
        }
      }
      if let Some((c, d, _)) = &e.rnew {
        r_checks += 1;
        run_comparisons += 1;
        if (*c != e.class || *d != e.digest) && !violated_keys.contains(&e.key) {
          violated_keys.insert(e.key.clone());
          violations.push(Violation { obligation: "R", key: e.key.clone(), detail: format!("from_ym gave class {} digest {:016x}, LunarMonth::new gave class {} digest {:016x} (run {} thread {} op {})", e.class, e.digest, c, d, run_index, e.tid, e.op), run: run_index, history_from: run_index.saturating_sub(199), history_text: None });
        }
      }
      match table.get(&e.key) {
        None => {
          table.insert(e.key.clone(), (e.class, e.digest, run_index));
          if report_run.is_none() && report_key.as_deref() == Some(e.key.as_str()) {
            violations.push(Violation { obligation: "X", key: e.key.clone(), detail: format!("first evaluation of the reported key: run {} thread {} op {} class {} digest {:016x}", run_index, e.tid, e.op, e.class, e.digest), run: run_index, history_from: run_index.saturating_sub(199), history_text: None });
          }
        }
        Some((c, d, first)) => {
          comparisons += 1;
          run_comparisons += 1;
          if (*c != e.class || *d != e.digest) && !violated_keys.contains(&e.key) {
            violated_keys.insert(e.key.clone());
            violations.push(Violation { obligation: if e.from_handle { "V" } else { "A" }, key: e.key.clone(), detail: format!("run {} thread {} op {} gave class {} digest {:016x}; first evaluation in this process (run {}) gave class {} digest {:016x}", run_index, e.tid, e.op, e.class, e.digest, first, c, d), run: run_index, history_from: run_index.saturating_sub(199).min(*first), history_text: None });
          }
        }
      }
    }
    for e in &evals {
      if e.class == 'R' {
        // classify by message kind is not possible without text; count by class only here
      }
    }
    if run_refusals > 0 {
      refusal_since_reset = true;
      faulty_runs += 1;
      evals_faulty += evals.len() as u64;
    } else {
      fault_free_runs += 1;
      evals_fault_free += evals.len() as u64;
    }
    if run_unwinds > 0 {
      unwind_since_reset = true;
    }
    refusals_panic += run_unwinds.min(run_refusals);
    refusals_err += run_refusals;
    if run_comparisons > 0 {
      nontrivial.insert(fnv(fnv(FNV0, &res.log_hash.to_le_bytes()), &eval_hash.to_le_bytes()));
    }
    // (sorting tens of thousands of memo keys after every run is what a pre-warmed worker cannot
    // afford: there the end state is sampled every 64th run)
    if prewarm == 0 || runs % 64 == 0 {
      let (sh, clen, p1, p2, p3) = lunar_state_hash();
      end_states.insert(sh);
      max_cache = max_cache.max(clen);
      if p1 || p2 || p3 {
        refusals_poison += 1;
      }
    }
    if samples.len() < 3 && (runs == 1 || (sw.threads > 1 && samples.len() < 2) || (run_refusals > 0 && samples.len() < 3)) {
      let mut first_ops: Vec<String> = Vec::new();
      for (t, ops) in script.threads.iter().enumerate() {
        for op in ops.iter().take(3) {
          first_ops.push(format!("t{} {}", t, op.to_text()));
        }
      }
      samples.push(format!("{{\"worker\":{},\"run\":{},\"run_seed\":{},\"threads\":{},\"policy\":\"{}\",\"ops\":{},\"refusals\":{},\"lock_unwinds\":{},\"steps\":{},\"reset_before\":{},\"first_ops\":[{}]}}", worker, r, run_seed, sw.threads, sw.policy.name(), evals.len(), run_refusals, run_unwinds, res.stats.steps, reset, first_ops.iter().map(|s| format!("\"{}\"", esc(s))).collect::<Vec<_>>().join(",")));
    }
    if digest {
      if res.free_run {
        // left simulator control (a lock outside the seam): scheduled by the OS, not comparable
        digest_lines.push(format!("D {} FREE {:016x}", r, eval_hash));
      } else {
        digest_lines.push(format!("D {} {:016x} {:016x} {:016x} {}", r, res.log_hash, eval_hash, fnv(FNV0, &res.trace), res.stats.steps));
      }
    }
    if violations.len() >= 8 {
      break;
    }
    r += 1;
  }
  if harness_error.is_none() && !stop_worker && !hung && violations.iter().all(|v| v.obligation != "P") && !pending.is_empty() {
    cold_phase!();
  }
  let _ = last_reset_run;

  // output
  let mut o = String::new();
  o.push_str("{\n");
  let _ = write!(o, "\"mode\":\"explore\",\"seed\":{},\"worker\":{},\"runs\":{},\"wall_s\":{:.3},", seed, worker, runs, t0.elapsed().as_secs_f64());
  let _ = write!(o, "\"free_run_runs\":{},\"hung\":{},\"alloc_yields\":{},\"runs_with_alloc_yields\":{},", free_runs, hung, alloc_yields, runs_with_alloc);
  let _ = write!(o, "\"cold_evaluations\":{},\"cold_comparisons\":{},", cold_evaluations, cold_comparisons);
  let _ = write!(o, "\"evaluations\":{},\"comparisons\":{},\"r_checks\":{},\"handle_evaluations\":{},", evaluations, comparisons, r_checks, handle_evals);
  let _ = write!(o, "\"refusals\":{},\"refusals_through_lock_unwind\":{},\"runs_ending_with_poisoned_lock\":{},", refusals_err, refusals_panic, refusals_poison);
  let _ = write!(o, "\"steps\":{},\"decisions\":{},\"switches\":{},\"blocked_events\":{},\"lock_acquisitions\":{},", steps, decisions, switches, blocked, lock_acq);
  let _ = write!(o, "\"lock_names\":[\"{}\"],", LOCK_NAMES.join("\",\""));
  let _ = write!(o, "\"unwinds_by_lock\":{},\"poisoned_acquisitions_by_lock\":{},\"unwind_while_waiter\":{},\"starvation_stretches\":{},\"parks\":{},\"parked_steps\":{},\"max_op_steps\":{},\"max_held_locks\":{},", jlist_u64(&unwinds_by_lock), jlist_u64(&poisoned_acq_by_lock), unwind_while_waiter, starvation, parks, parked_steps, max_op_steps, max_held);
  let _ = write!(o, "\"resets\":{},\"warm_runs\":{},\"fault_free_runs\":{},\"faulty_runs\":{},\"evaluations_in_fault_free_runs\":{},\"evaluations_in_faulty_runs\":{},", resets, warm_runs, fault_free_runs, faulty_runs, evals_fault_free, evals_faulty);
  let _ = write!(o, "\"memo_warm_reask\":{},\"memo_cold_ask\":{},\"valid_after_refusal\":{},\"valid_after_lock_unwind\":{},\"same_month_after_refusal\":{},\"twin_pairs_in_run\":{},", memo_warm_reask, memo_cold_ask, valid_after_refusal, valid_after_lock_unwind, same_month_after_refusal, twin_pairs_in_run);
  let _ = write!(o, "\"injected_refusals_by_class\":{},\"gen_twins\":{},\"gen_reasks\":{},\"gen_pool_ops\":{},\"gen_handle_ops\":{},", jlist_u64(&gs.faults_by_class), gs.twins, gs.reasks, gs.pool_ops, gs.handle_ops);
  let _ = write!(o, "\"distinct_lock_event_logs\":{},\"distinct_end_states\":{},\"distinct_sched_states\":{},\"distinct_nontrivial_runs\":{},\"distinct_keys\":{},\"max_cache_len\":{},", log_hashes.len(), end_states.len(), sched_states.len(), nontrivial.len(), table.len(), max_cache);
  let mut bp: Vec<(String, u64)> = by_policy.into_iter().collect();
  bp.sort();
  let mut bt: Vec<(String, u64)> = by_threads.into_iter().collect();
  bt.sort();
  let mut be: Vec<(String, u64)> = by_era.into_iter().collect();
  be.sort();
  let _ = write!(o, "\"by_policy\":{},\"by_threads\":{},\"by_era\":{},", jmap(&bp), jmap(&bt), jmap(&be));
  let _ = write!(o, "\"samples\":[{}],", samples.join(","));
  let _ = write!(o, "\"nontrivial_hashes\":[{}],", nontrivial.iter().map(|h| format!("\"{:016x}\"", h)).collect::<Vec<_>>().join(","));
  let _ = write!(o, "\"end_state_hashes\":[{}],", end_states.iter().map(|h| format!("\"{:016x}\"", h)).collect::<Vec<_>>().join(","));
  let _ = write!(o, "\"log_hashes\":[{}],", log_hashes.iter().take(200000).map(|h| format!("\"{:016x}\"", h)).collect::<Vec<_>>().join(","));
  // pool answers for the cross-process agreement check
  o.push_str("\"pool_answers\":{");
  let mut first = true;
  let mut pk: Vec<&String> = pool_keys.iter().collect();
  pk.sort();
  for k in pk {
    if let Some((c, d, _)) = table.get(k) {
      if !first {
        o.push(',');
      }
      first = false;
      let _ = write!(o, "\"{}\":\"{}{:016x}@{}\"", esc(k), c, d, table.get(k).map(|x| x.2).unwrap_or(0));
    }
  }
  o.push_str("},");
  o.push_str("\"fresh_sample\":[");
  for (i, (k, c, d, rr)) in fresh_sample.iter().enumerate() {
    if i > 0 {
      o.push(',');
    }
    let _ = write!(o, "{{\"key\":\"{}\",\"ans\":\"{}{:016x}\",\"run\":{}}}", esc(k), c, d, rr);
  }
  o.push_str("],");
  o.push_str("\"violations\":[");
  for (i, v) in violations.iter().enumerate() {
    if i > 0 {
      o.push(',');
    }
    let mut hist = String::new();
    match &v.history_text {
      Some(t) => hist.push_str(t),
      None => {
        // from the restart before the first run that matters: a history that starts in the middle
        // of a warm period does not rebuild the state the violation needs
        let from = reset_at.get(v.history_from.min(v.run)).cloned().unwrap_or(0).min(v.history_from);
        for t in &run_texts[from..=v.run] {
          hist.push_str(t);
        }
      }
    }
    let _ = write!(o, "{{\"obligation\":\"{}\",\"key\":\"{}\",\"detail\":\"{}\",\"run\":{},\"history_from\":{},\"history\":\"{}\"}}", v.obligation, esc(&v.key), esc(&v.detail), v.run, v.history_from, esc(&hist));
  }
  o.push_str("],");
  let _ = write!(o, "\"harness_error\":{}", match &harness_error {
    Some(e) => format!("\"{}\"", esc(e)),
    None => "null".to_string(),
  });
  if harness_error.is_some() {
    let _ = write!(o, ",\"last_script\":\"{}\"", esc(run_texts.last().map(|s| s.as_str()).unwrap_or("")));
  }
  o.push_str("\n}\n");
  write_out(out, &o);
  for l in &digest_lines {
    println!("{}", l);
  }
  if harness_error.is_some() {
    eprintln!("HARNESS-ERROR {}", harness_error.unwrap());
    return 2;
  }
  // after a hang the stuck thread is still there; main() leaves through process::exit
  0
}

/// All (year, month) candidates with month in -12..=12 except 0 and year 0..=9999 that the
/// uncached constructor accepts, with the digest of its rendering.
fn valid_months() -> Vec<(i64, i64, u64)> {
  let mut v = Vec::with_capacity(124000);
  for y in 0..=9999i64 {
    for m in (-12..=12i64).filter(|m| *m != 0) {
      let o = Query::new(K_LM_NEW, vec![y, m]).eval();
      if o.class() == 'K' {
        v.push((y, m, o.digest()));
      }
    }
  }
  v
}

/// One single-thread run made of `queries`, executed under the simulator (so that the step
/// budget and the progress watchdog apply). Returns (class, digest) per query, or the abort reason
/// and the number of queries that completed.
fn batch(queries: &[Query], hash_seed: u64, reset: bool, watchdog: Duration) -> Result<Vec<(char, u64)>, (String, usize)> {
  let ops: Vec<crate::script::Op> = queries.iter().map(|q| crate::script::Op::Q { q: q.clone(), stop: false }).collect();
  let script = crate::script::RunScript { threads: vec![ops], policy: crate::sched::Policy::Seq, sched_seed: 0, hash_seed, reset, fault_free: true, alloc_period: 0 };
  let out = exec_run_opt(&script, false, false, watchdog, false);
  if let Some(a) = &out.result.abort {
    return Err((a.clone(), out.evals.len()));
  }
  let mut evals: Vec<&EvalRec> = out.evals.iter().collect();
  evals.sort_by_key(|e| e.op);
  Ok(evals.iter().map(|e| (e.class, e.digest)).collect())
}

fn batch_script(queries: &[Query], hash_seed: u64) -> String {
  let mut s = format!("run threads=1 policy=seq sched=0 hash={} reset=1\n", hash_seed);
  for q in queries {
    s.push_str(&format!("t0 q {}\n", q.key()));
  }
  s.push_str("end\n");
  s
}

/// The same history as `batch_script`, cut into runs of 4096 operations (only the first one starts
/// from a restart), so that no single run meets the per-run wall limit however long it is.
fn chunked_script(queries: &[Query], hash_seed: u64) -> String {
  let mut s = String::new();
  for (i, c) in queries.chunks(4096).enumerate() {
    s.push_str(&format!("run threads=1 policy=seq sched=0 hash={} reset={}\n", hash_seed, if i == 0 { 1 } else { 0 }));
    for q in c {
      s.push_str(&format!("t0 q {}\n", q.key()));
    }
    s.push_str("end\n");
  }
  s
}

/// Long-history sub-check, one process per order: the same N seeded queries over all kinds (mostly
/// distinct arguments, the whole year range) asked in one long-lived process, forwards in process
/// 0, backwards in process 1, shuffled in the others. Nothing is reset in between, so whatever the
/// library remembers keeps growing: a bounded, ring-shaped or slot-numbered memo that only
/// misbehaves once it holds tens of thousands of entries is reached here and nowhere else. The
/// driver compares the answers of the processes query by query (a query late in one history is
/// early in the other) and confirms a difference by replaying the history prefix (--dump-upto).
pub fn longrun(args: &[String]) -> i32 {
  let seed = arg_u64(args, "--seed", 20260926);
  let index = arg_u64(args, "--index", 0);
  let n = arg_u64(args, "--n", 200000) as usize;
  let out = arg(args, "--out");
  let answers_path = arg(args, "--answers");
  let watchdog = Duration::from_secs(arg_u64(args, "--watchdog", 30));
  let dump_upto: Option<u64> = if arg(args, "--dump-upto").is_none() { None } else { Some(arg_u64(args, "--dump-upto", 0)) };
  // --threads T > 1: every block of 4096 queries is dealt round robin to T threads of one simulated
  // run under the random-walk scheduler (the long history and concurrency at the same time)
  let nthreads = (arg_u64(args, "--threads", 1) as usize).max(1).min(16);
  // --refusals NUM/DEN of the queries are requests built to be refused (all classes the explore
  // generator injects: before any lock, outside the locks, inside each of the three critical
  // sections); the default history has 1/24 invalid tuples. A refusal-heavy history is its own
  // query list: the driver compares the processes that were given the same --refusals.
  let (ref_num, ref_den) = match arg(args, "--refusals") {
    Some(t) => {
      let mut it = t.split('/');
      (it.next().and_then(|x| x.parse::<u64>().ok()).unwrap_or(0), it.next().and_then(|x| x.parse::<u64>().ok()).unwrap_or(1).max(1))
    }
    None => (0, 1),
  };
  let t0 = Instant::now();
  let hash_seed = mix(mix(seed, 0x6c6f6e67), index) | 1;
  tyme4rs::tyme::verif::set_hash_seed(hash_seed);
  install_hooks();
  reset_library();
  let leap = Leap::build();
  crate::gen::build_holidays();
  // the query list is a function of the seed only
  let mut rng = Rng::new(mix(mix(seed, 0x6c6f6e6772756e), ref_num * 1000 + ref_den));
  let kinds: Vec<usize> = (0..KINDS.len()).filter(|k| KINDS[*k].name != "PROVIDER" && KINDS[*k].cost < 2).collect();
  let mut queries: Vec<Query> = Vec::with_capacity(n);
  let mut per_family = [0u64; 10];
  while queries.len() < n {
    let mut k = *rng.pick(&kinds);
    if KINDS[k].cost == 1 && rng.chance(1, 2) {
      k = *rng.pick(&kinds);
    }
    let invalid = rng.chance(1, 24);
    let t = crate::gen::gen_tuple(&mut rng, 4, &leap, invalid);
    let o = crate::gen::gen_tuple(&mut rng, 4, &leap, false);
    if ref_num > 0 && rng.chance(ref_num, ref_den) {
      // a request built to be refused
      let q = if rng.chance(1, 6) {
        crate::gen::provider_fault(&mut rng).0
      } else {
        let (ct, class) = crate::gen::corrupt(&mut rng, t, &leap);
        let fk = crate::gen::fault_kind(&mut rng, class);
        Query::new(fk, crate::gen::args_for(&mut rng, fk, ct, o))
      };
      per_family[KINDS[q.kind].family] += 1;
      queries.push(q);
      continue;
    }
    per_family[KINDS[k].family] += 1;
    queries.push(Query::new(k, crate::gen::args_for(&mut rng, k, t, o)));
  }
  let mut order: Vec<u32> = (0..n as u32).collect();
  match index {
    0 => {}
    1 => order.reverse(),
    _ => Rng::new(mix(mix(seed, 0x6f72646572), index)).shuffle(&mut order),
  }
  // the run made of block number b (queries order[b*4096 ..]); for T threads query k of the block
  // is operation k / T of thread k % T
  let block_script = |b: usize| -> crate::script::RunScript {
    let lo = b * 4096;
    let hi = (lo + 4096).min(n);
    let mut threads: Vec<Vec<crate::script::Op>> = vec![Vec::new(); nthreads];
    for (k, i) in order[lo..hi].iter().enumerate() {
      threads[k % nthreads].push(crate::script::Op::Q { q: queries[*i as usize].clone(), stop: false });
    }
    threads.retain(|t| !t.is_empty());
    let policy = if nthreads > 1 { crate::sched::Policy::RandomWalk } else { crate::sched::Policy::Seq };
    crate::script::RunScript { threads, policy, sched_seed: mix(mix(seed, 0x626c6f636b), b as u64), hash_seed, reset: b == 0, fault_free: true, alloc_period: 0 }
  };
  if let Some(p) = dump_upto {
    let upto = (p as usize + 1).min(n);
    if nthreads == 1 {
      let qs: Vec<Query> = order[..upto].iter().map(|i| queries[*i as usize].clone()).collect();
      write_out(out, &chunked_script(&qs, hash_seed));
    } else {
      // whole blocks (the order inside a block is the scheduler's)
      let mut s = String::new();
      for b in 0..=((upto - 1) / 4096) {
        s.push_str(&block_script(b).to_text(None));
      }
      write_out(out, &s);
    }
    return 0;
  }
  let mut answers: Vec<(char, u64, u32)> = vec![('-', 0, 0); n];
  let mut violations: Vec<String> = Vec::new();
  let mut evaluations = 0u64;
  let mut refused = 0u64;
  let mut pos = 0usize;
  while pos < n {
    let end = (pos + 4096).min(n);
    let qs: Vec<Query> = order[pos..end].iter().map(|i| queries[*i as usize].clone()).collect();
    let res = if nthreads == 1 {
      batch(&qs, hash_seed, pos == 0, watchdog)
    } else {
      let script = block_script(pos / 4096);
      let out = exec_run_opt(&script, false, false, watchdog, false);
      match &out.result.abort {
        Some(a) => Err((a.clone(), out.evals.len())),
        None => {
          let mut ans: Vec<(char, u64)> = vec![('-', 0); qs.len()];
          for e in &out.evals {
            let k = e.op as usize * nthreads + e.tid as usize;
            if k < ans.len() {
              ans[k] = (e.class, e.digest);
            }
          }
          Ok(ans)
        }
      }
    };
    match res {
      Err((why, done)) => {
        let history = if nthreads == 1 {
          let upto = pos + (done + 1).min(qs.len());
          let all: Vec<Query> = order[..upto].iter().map(|i| queries[*i as usize].clone()).collect();
          chunked_script(&all, hash_seed)
        } else {
          (0..=(pos / 4096)).map(|b| block_script(b).to_text(None)).collect::<Vec<String>>().join("")
        };
        violations.push(format!("{{\"obligation\":\"P\",\"key\":\"\",\"position\":{},\"detail\":\"{}\",\"history\":\"{}\"}}", pos + done, esc(&why), esc(&history)));
        break;
      }
      Ok(ans) => {
        for (k, (c, d)) in ans.iter().enumerate() {
          evaluations += 1;
          if *c == 'R' {
            refused += 1;
          }
          answers[order[pos + k] as usize] = (*c, *d, (pos + k) as u32);
        }
      }
    }
    pos = end;
  }
  if let Some(p) = answers_path {
    let mut a = String::with_capacity(n * 48);
    for (i, (c, d, at)) in answers.iter().enumerate() {
      let _ = write!(a, "{}{:016x} {} {}\n", c, d, at, queries[i].key());
    }
    write_out(Some(p), &a);
  }
  let fams: Vec<String> = (0..10).map(|f| format!("\"{}\":{}", FAMILIES[f], per_family[f])).collect();
  let (clen, _, _, _, _) = if violations.is_empty() { let x = lunar_state_hash(); (x.1, x.2, x.3, x.4, false) } else { (0, false, false, false, false) };
  let mut o = String::new();
  let _ = write!(o, "{{\"mode\":\"longrun\",\"seed\":{},\"index\":{},\"refusals\":\"{}/{}\",\"threads\":{},\"n\":{},\"evaluations\":{},\"refused\":{},\"month_memo_entries_after\":{},\"queries_per_family\":{{{}}},\"wall_s\":{:.3},\"violations\":[{}]}}\n", seed, index, ref_num, ref_den, nthreads, n, evaluations, refused, clen, fams.join(","), t0.elapsed().as_secs_f64(), violations.join(","));
  write_out(out, &o);
  0
}

pub fn sweep(args: &[String]) -> i32 {
  let seed = arg_u64(args, "--seed", 20260926);
  let index = arg_u64(args, "--index", 0);
  let out = arg(args, "--out");
  let watchdog = Duration::from_secs(arg_u64(args, "--watchdog", 30));
  // --dump-upto P: do not execute; write the history of this sweep up to and including request
  // number P as a script (the driver replays it in a fresh process when the short history a
  // violation record suggests does not show the violation: a bounded or ring-shaped memo only
  // misbehaves after thousands of earlier requests)
  let dump_upto: Option<u64> = if arg(args, "--dump-upto").is_none() { None } else { Some(arg_u64(args, "--dump-upto", 0)) };
  let t0 = Instant::now();
  install_hooks();
  reset_library();
  let mut rng = Rng::new(mix(mix(seed, 0x7377656570), index));
  let hash_seed = rng.next_u64() | 1;
  tyme4rs::tyme::verif::set_hash_seed(hash_seed);
  let valid = valid_months();
  let n = valid.len();
  // each valid month twice (miss path, later hit path), plus invalid requests sprinkled in
  let mut order: Vec<u32> = Vec::with_capacity(2 * n);
  for i in 0..n as u32 {
    order.push(i);
    order.push(i);
  }
  rng.shuffle(&mut order);
  let mut seen = vec![0u8; n];
  let mut violations: Vec<String> = Vec::new();
  let mut evaluations = 0u64;
  let mut hits = 0u64;
  let mut misses = 0u64;
  let mut invalid_asked = 0u64;
  let mut sample: Vec<String> = Vec::new();
  let mut hung = false;
  let mut pos = 0usize;
  let mut flat = 0usize; // requests issued in earlier chunks (valid and invalid ones)
  let mut first_chunk = true;
  let mut dump: Vec<Query> = Vec::new();
  while pos < order.len() && violations.len() < 8 {
    let end = (pos + 4096).min(order.len());
    // expectation per query: Some(index into valid) or None (must be refused)
    let mut qs: Vec<Query> = Vec::new();
    let mut expect: Vec<Option<u32>> = Vec::new();
    for &ix in &order[pos..end] {
      let (y, m, _) = valid[ix as usize];
      qs.push(Query::new(K_LM_FROM_YM, vec![y, m]));
      expect.push(Some(ix));
      if rng.chance(1, 16) {
        let (by, bm) = match rng.below(4) {
          0 => (y, -m),
          1 => (y, m + if m > 0 { 12 } else { -12 }),
          2 => (y * 10 + m.abs() / 10, m.abs() % 10),
          _ => (y + 10000, m),
        };
        let is_valid = bm != 0 && bm.abs() <= 12 && by >= 0 && by <= 9999 && Query::new(K_LM_NEW, vec![by, bm]).eval().class() == 'K';
        if !is_valid {
          qs.push(Query::new(K_LM_FROM_YM, vec![by, bm]));
          expect.push(None);
        }
      }
    }
    if let Some(p) = dump_upto {
      let p = p as usize;
      let take = if p + 1 >= flat + qs.len() { qs.len() } else { p + 1 - flat };
      dump.extend_from_slice(&qs[..take]);
      flat += qs.len();
      pos = end;
      if flat > p {
        break;
      }
      continue;
    }
    match batch(&qs, hash_seed, first_chunk, watchdog) {
      Err((why, done)) => {
        hung = why.starts_with("watchdog");
        let upto = (done + 1).min(qs.len());
        violations.push(format!("{{\"obligation\":\"P\",\"key\":\"\",\"position\":{},\"detail\":\"{}\",\"history\":\"{}\"}}", flat + done, esc(&why), esc(&batch_script(&qs[..upto], hash_seed))));
        break;
      }
      Ok(ans) => {
        for (k, q) in qs.iter().enumerate() {
          evaluations += 1;
          let (c, d) = ans[k];
          match expect[k] {
            Some(ix) => {
              if seen[ix as usize] == 0 {
                misses += 1;
              } else {
                hits += 1;
              }
              seen[ix as usize] += 1;
              if (c != 'K' || d != valid[ix as usize].2) && violations.len() < 8 {
                let got = q.eval();
                let expected = Query::new(K_LM_NEW, q.args.clone()).eval();
                violations.push(format!("{{\"obligation\":\"R\",\"key\":\"{}\",\"position\":{},\"ask\":{},\"got_class\":\"{}\",\"got\":\"{}\",\"expected\":\"{}\"}}", esc(&q.key()), flat + k, seen[ix as usize], c, esc(got.text()), esc(expected.text())));
              }
              if sample.len() < 3 {
                sample.push(format!("\"{} -> {}{:016x}\"", esc(&q.key()), c, d));
              }
            }
            None => {
              invalid_asked += 1;
              if c != 'R' && violations.len() < 8 {
                let got = q.eval();
                violations.push(format!("{{\"obligation\":\"I\",\"key\":\"{}\",\"position\":{},\"ask\":0,\"got_class\":\"K\",\"got\":\"{}\",\"expected\":\"refusal\"}}", esc(&q.key()), flat + k, esc(got.text())));
              }
            }
          }
        }
      }
    }
    first_chunk = false;
    flat += qs.len();
    pos = end;
  }
  if dump_upto.is_some() {
    write_out(out, &chunked_script(&dump, hash_seed));
    return 0;
  }
  let (clen, p1) = if hung { (0, false) } else { let x = lunar_state_hash(); (x.1, x.2) };
  let mut o = String::new();
  let _ = write!(o, "{{\"mode\":\"sweep\",\"seed\":{},\"index\":{},\"valid_months\":{},\"evaluations\":{},\"miss_path\":{},\"hit_path\":{},\"invalid_requests\":{},\"cache_len_after\":{},\"cache_poisoned_after\":{},\"wall_s\":{:.3},\"samples\":[{}],\"violations\":[{}]}}\n", seed, index, n, evaluations, misses, hits, invalid_asked, clen, p1, t0.elapsed().as_secs_f64(), sample.join(","), violations.join(","));
  write_out(out, &o);
  0
}

/// Hash-order sub-check, one process per hasher seed: the seed is set BEFORE the library is
/// touched for the first time, so every lazily built map of this process is laid out under it
/// (exactly what differs between two real processes). Prints the digests of every lunar year's
/// attributes and of the month lists of sampled years; the driver compares processes.
pub fn hashorder(args: &[String]) -> i32 {
  let seed = arg_u64(args, "--seed", 20260926);
  let index = arg_u64(args, "--index", 0);
  let out = arg(args, "--out");
  let watchdog = Duration::from_secs(arg_u64(args, "--watchdog", 30));
  let t0 = Instant::now();
  let hs: u64 = if index == 0 { 0 } else { mix(mix(seed, 0x68617368), index) | 1 };
  tyme4rs::tyme::verif::set_hash_seed(hs);
  install_hooks();
  // fingerprint of the iteration order this seed produces for a 12-key map like the leap table
  let mut m: tyme4rs::tyme::verif::HashMap<usize, u8> = tyme4rs::tyme::verif::HashMap::new();
  for k in 1..=12usize {
    m.insert(k, 0);
  }
  let mut order_fp = String::new();
  for (k, _) in m.iter() {
    order_fp.push_str(&format!("{}.", k));
  }
  let k_misc = kind_by_name("LY.misc").unwrap();
  let k_months = kind_by_name("LY.months").unwrap();
  let mut queries: Vec<Query> = (-1..=9999i64).map(|y| Query::new(k_misc, vec![y])).collect();
  // the same sample in every process: a function of the seed only
  let mut rng = Rng::new(mix(seed, 0x73616d70));
  for i in 0..240 {
    let y = if i < 120 { rng.range(0, 9999) } else { rng.range(9700, 9999) };
    queries.push(Query::new(k_months, vec![y]));
    queries.push(Query::new(K_LM_FROM_YM, vec![y, rng.range(1, 12)]));
  }
  let mut violations: Vec<String> = Vec::new();
  let mut answers: Vec<String> = Vec::new();
  match batch(&queries, hs, true, watchdog) {
    Ok(ans) => {
      for (c, d) in ans {
        answers.push(format!("\"{}{:016x}\"", c, d));
      }
    }
    Err((why, done)) => {
      let upto = (done + 1).min(queries.len());
      violations.push(format!("{{\"obligation\":\"P\",\"key\":\"\",\"hash_seed\":{},\"detail\":\"{}\",\"history\":\"{}\"}}", hs, esc(&why), esc(&batch_script(&queries[done.min(upto - 1)..upto], hs))));
    }
  }
  let keys: Vec<String> = queries.iter().map(|q| format!("\"{}\"", esc(&q.key()))).collect();
  let mut o = String::new();
  let _ = write!(o, "{{\"mode\":\"hashorder\",\"seed\":{},\"index\":{},\"hash_seed\":{},\"iteration_order_of_12_keys\":\"{}\",\"evaluations\":{},\"wall_s\":{:.3},\"keys\":[{}],\"answers\":[{}],\"violations\":[{}]}}\n", seed, index, hs, order_fp, answers.len(), t0.elapsed().as_secs_f64(), if index == 0 { keys.join(",") } else { String::new() }, answers.join(","), violations.join(","));
  write_out(out, &o);
  0
}

/// Hot key: the same month asked millions of times in one process (a long-running service
/// formatting today's date). Whatever the memo counts per entry — hits, ages, generations in a
/// packed or narrow field — wraps within 2^24 lookups or is out of reach of this check.
pub fn hotkey(args: &[String]) -> i32 {
  use tyme4rs::tyme::lunar::LunarMonth;
  let seed = arg_u64(args, "--seed", 20260926);
  let lookups = arg_u64(args, "--lookups", (1 << 24) + 64);
  let nkeys = arg_u64(args, "--keys", 2) as usize;
  let per_key_cap = arg_u64(args, "--cap", 12);
  let out = arg(args, "--out");
  let t0 = Instant::now();
  install_hooks();
  let mut rng = Rng::new(mix(seed, 0x686f74));
  let mut keys: Vec<(i64, i64)> = vec![(2024, 1), (2020, -4), (1, 1), (9999, 12), (2033, -11)];
  while keys.len() < nkeys {
    keys.push((rng.range(1, 9998), rng.range(1, 12)));
  }
  keys.truncate(nkeys.max(1));
  let mut violations: Vec<String> = Vec::new();
  let mut total = 0u64;
  for (y, m) in &keys {
    reset_library();
    let reference = match std::panic::catch_unwind(|| LunarMonth::new(*y as isize, *m as isize)) {
      Ok(Ok(r)) => r,
      _ => continue,
    };
    let rf = (reference.get_year(), reference.get_month_with_leap(), reference.get_day_count(), reference.get_index_in_year(), reference.get_first_julian_day().get_day().to_bits());
    let (yy, mm) = (*y as isize, *m as isize);
    let key_t0 = Instant::now();
    let bad: Result<Option<u64>, ()> = std::panic::catch_unwind(move || {
      for k in 0..lookups {
        // wall-clock cap per key (a tree whose lookups are not memoised at all would need
        // minutes; there is then no per-entry counter to wrap either)
        if k & 0xffff == 0 && key_t0.elapsed() > Duration::from_secs(per_key_cap) {
          return None;
        }
        let x = LunarMonth::from_ym(yy, mm);
        let xf = (x.get_year(), x.get_month_with_leap(), x.get_day_count(), x.get_index_in_year(), x.get_first_julian_day().get_day().to_bits());
        if xf != rf {
          return Some(k);
        }
      }
      None
    })
    .map_err(|_| ());
    total += lookups;
    let at = match bad {
      Ok(None) => continue,
      Ok(Some(k)) => k,
      Err(()) => lookups,
    };
    let key = format!("LM.from_ym {} {}", y, m);
    let hist = format!("run threads=1 policy=seq sched=0 hash=0 reset=1\nt0 q*{} {}\nend\n", at + 1, key);
    violations.push(format!("{{\"obligation\":\"R\",\"key\":\"{}\",\"lookups\":{},\"detail\":\"lookup number {} of the same month differs from LunarMonth::new\",\"history\":\"{}\"}}", esc(&key), at + 1, at + 1, esc(&hist)));
  }
  let mut o = String::new();
  let _ = write!(o, "{{\"mode\":\"hotkey\",\"seed\":{},\"keys\":{},\"lookups_per_key\":{},\"evaluations\":{},\"wall_s\":{:.3},\"violations\":[{}]}}\n", seed, keys.len(), lookups, total, t0.elapsed().as_secs_f64(), violations.join(","));
  write_out(out, &o);
  0
}

pub fn replay(args: &[String]) -> i32 {
  let path = match arg(args, "--script") {
    Some(p) => p,
    None => {
      eprintln!("replay: --script FILE required");
      return 2;
    }
  };
  let show_log = flag(args, "--log");
  let watchdog = Duration::from_secs(arg_u64(args, "--watchdog", 60));
  // `--expect-key K --expect-answer <class><digest>`: exit code 1 as soon as an evaluation of K
  // differs from the expected (cold) answer. Used to let Miri's many-seeds search find a seed —
  // i.e. one exactly repeatable schedule — under which a race found by the stress sub-check shows.
  let expect_key: Option<String> = arg(args, "--expect-key").map(|s| s.to_string());
  let expect_answer: Option<String> = arg(args, "--expect-answer").map(|s| s.to_string());
  let mut unexpected = false;
  let text = match std::fs::read_to_string(path) {
    Ok(t) => t,
    Err(e) => {
      eprintln!("cannot read {}: {}", path, e);
      return 2;
    }
  };
  let runs = match parse_runs(&text) {
    Ok(r) => r,
    Err(e) => {
      eprintln!("cannot parse {}: {}", path, e);
      return 2;
    }
  };
  install_hooks();
  for (i, script) in runs.iter().enumerate() {
    let out = exec_run(script, true, true, watchdog);
    let res = &out.result;
    let owners: Vec<String> = res.trace_owner.iter().map(|(t, o)| format!("{}:{}", t, o)).collect();
    println!("RUN {} threads={} steps={} log={:016x} diverged={} trace={} owners={} abort={}", i, script.threads.len(), res.stats.steps, res.log_hash, if res.diverged { 1 } else { 0 }, trace_to_text(&res.trace), owners.join("."), match &res.abort {
      Some(a) => a.replace('\n', " "),
      None => "-".to_string(),
    });
    let mut evals: Vec<&EvalRec> = out.evals.iter().collect();
    evals.sort_by_key(|e| e.seq.0);
    for e in evals {
      println!("E {} {} {} {} {:016x} {}{} ## {}", i, e.tid, e.op, e.class, e.digest, e.key, if e.from_handle { " @handle" } else { "" }, e.text.replace('\n', " "));
      if let (Some(k), Some(a)) = (&expect_key, &expect_answer) {
        if &e.key == k && &format!("{}{:016x}", e.class, e.digest) != a {
          unexpected = true;
        }
      }
      if let Some((c, d, t)) = &e.rnew {
        println!("N {} {} {} {} {:016x} {} ## {}", i, e.tid, e.op, c, d, e.key, t.replace('\n', " "));
      }
    }
    if show_log {
      for (k, (tid, ev, lock, op)) in res.log.iter().enumerate() {
        println!("L {} {} T{} op{} {} {}", i, k, tid, op, EV_NAMES[*ev as usize], if *lock == 255 { "-".to_string() } else { format!("L{}", lock) });
      }
    }
    if res.watchdog {
      println!("WATCHDOG {}", i);
      return 2;
    }
    if res.abort.is_some() {
      // the process state after an aborted run is not meaningful; stop here
      break;
    }
  }
  if unexpected {
    println!("UNEXPECTED-ANSWER {}", expect_key.unwrap_or_default());
    return 1;
  }
  0
}

pub fn single(args: &[String]) -> i32 {
  let toks: Vec<&str> = args.iter().map(|s| s.as_str()).collect();
  let q = match Query::parse(&toks) {
    Ok(q) => q,
    Err(e) => {
      eprintln!("single: {}", e);
      return 2;
    }
  };
  install_hooks();
  // as a one-operation run under the simulator, so that a query that deadlocks on itself or never
  // returns is reported (class P) instead of hanging the driver
  let watchdog = Duration::from_secs(20);
  let runs = match parse_runs(&cold_script(&q.key())) {
    Ok(r) => r,
    Err(e) => {
      eprintln!("single: {}", e);
      return 2;
    }
  };
  let out = exec_run(&runs[0], false, true, watchdog);
  if let Some(a) = &out.result.abort {
    println!("S P 0000000000000000 {} ## {}", q.key(), a.replace('\n', " "));
    return 0;
  }
  match out.evals.first() {
    Some(e) => println!("S {} {:016x} {} ## {}", e.class, e.digest, q.key(), e.text.replace('\n', " ")),
    None => {
      eprintln!("single: no evaluation recorded");
      return 2;
    }
  }
  0
}
