//! Executes one run script under the baton scheduler and records every evaluation.

use std::sync::{Arc, Mutex};
use std::time::Duration;

use tyme4rs::tyme::lunar::{LunarDay, LunarHour};
use tyme4rs::tyme::Tyme;

use crate::query::*;
use crate::sched::{sim, RunResult};
use crate::script::{Op, RunScript, SLOTS};

#[derive(Clone, Debug)]
pub struct EvalRec {
  pub tid: u8,
  pub op: u16,
  pub key: String,
  pub class: char,
  pub digest: u64,
  pub text: String,
  pub from_handle: bool,
  /// for LM.from_ym: class and digest of the uncached reference LunarMonth::new
  pub rnew: Option<(char, u64, String)>,
  /// global sequence numbers of invoke and return (scheduler event order)
  pub seq: (u64, u64),
}

enum Handle {
  D(LunarDay),
  H(LunarHour),
}

pub struct ExecOut {
  pub evals: Vec<EvalRec>,
  pub result: RunResult,
}

/// Far above anything legitimate (the largest operation observed makes about 350 steps; a week
/// stepped by a few thousand makes some 10^4), far below what an endless loop reaches in a second.
pub const STEP_BUDGET: u64 = 1_000_000;

fn clip(s: &str, keep_text: bool) -> String {
  if keep_text {
    s.to_string()
  } else {
    String::new()
  }
}

fn handle_key_base(h: &Handle) -> Vec<i64> {
  match h {
    Handle::D(d) => vec![d.get_year() as i64, d.get_month() as i64, d.get_day() as i64],
    Handle::H(h) => vec![h.get_year() as i64, h.get_month() as i64, h.get_day() as i64, h.get_hour() as i64, h.get_minute() as i64, h.get_second() as i64],
  }
}

fn key_of(name: &str, args: &[i64]) -> String {
  let mut s = String::from(name);
  for a in args {
    s.push(' ');
    s.push_str(&a.to_string());
  }
  s
}

/// Reset the library to the state of a fresh process (quiescent points only).
pub fn reset_library() {
  tyme4rs::tyme::lunar::verif_reset();
  tyme4rs::tyme::eightchar::verif_reset();
}

pub fn exec_run(script: &RunScript, keep_log: bool, keep_text: bool, watchdog: Duration) -> ExecOut {
  exec_run_opt(script, keep_log, keep_text, watchdog, true)
}

/// `with_rnew`: also evaluate the uncached LunarMonth::new next to every LM.from_ym.
pub fn exec_run_opt(script: &RunScript, keep_log: bool, keep_text: bool, watchdog: Duration, with_rnew: bool) -> ExecOut {
  if script.reset {
    reset_library();
  }
  tyme4rs::tyme::verif::set_hash_seed(script.hash_seed);
  if script.alloc_period > 0 && script.threads.len() > 1 {
    // With allocation yield points a thread could be parked inside a `Once` initialiser of one of
    // the library's immutable lazy tables while another thread needs it. Touch those tables here
    // (pure series evaluation and the leap table, laid out under this run's hash seed; none of the
    // three mutexes, no memo).
    use tyme4rs::tyme::util::ShouXingUtil;
    for jd in [-730000.0f64, -547000.0, -182000.0, 0.0, 1095000.0] {
      let _ = std::panic::catch_unwind(|| (ShouXingUtil::calc_shuo(jd), ShouXingUtil::calc_qi(jd)));
    }
    let _ = std::panic::catch_unwind(|| tyme4rs::tyme::lunar::LunarYear::from_year(2000).get_leap_month());
    if !script.reset {
      let _ = tyme4rs::tyme::lunar::verif_state();
      let _ = tyme4rs::tyme::eightchar::verif_state();
    }
  }
  let evals: Arc<Mutex<Vec<EvalRec>>> = Arc::new(Mutex::new(Vec::new()));
  let seq: Arc<std::sync::atomic::AtomicU64> = Arc::new(std::sync::atomic::AtomicU64::new(0));
  let threads: Arc<Vec<Vec<Op>>> = Arc::new(script.threads.clone());
  let alloc_period: u32 = script.alloc_period;
  let ev2 = evals.clone();
  let body = move |tid: usize| {
    let ops = &threads[tid];
    let mut slots: Vec<Option<Handle>> = (0..SLOTS).map(|_| None).collect();
    let next_seq = || seq.fetch_add(1, std::sync::atomic::Ordering::SeqCst);
    for (idx, op) in ops.iter().enumerate() {
      if !sim().op_start(tid, idx as u32) {
        break;
      }
      crate::sched::set_alloc_plan(alloc_period, (tid as u32).wrapping_mul(7).wrapping_add((idx as u32).wrapping_mul(13)));
      let mut stop_now = false;
      match op {
        Op::Q { q, stop } => {
          let s0 = next_seq();
          let out = q.eval();
          let s1 = next_seq();
          let rnew = if with_rnew && q.kind == K_LM_FROM_YM {
            let r = Query::new(K_LM_NEW, q.args.clone()).eval();
            Some((r.class(), r.digest(), clip(r.text(), keep_text)))
          } else {
            None
          };
          if *stop && out.class() == 'R' {
            stop_now = true;
          }
          ev2.lock().unwrap().push(EvalRec { tid: tid as u8, op: idx as u16, key: q.key(), class: out.class(), digest: out.digest(), text: clip(out.text(), keep_text), from_handle: false, rnew, seq: (s0, s1) });
        }
        Op::HNew { slot, hour, args } => {
          let a = args.clone();
          let s0 = next_seq();
          let mut made: Option<Handle> = None;
          let out = if *hour {
            run_guarded(|| {
              let h = LunarHour::new(a[0] as isize, a[1] as isize, a[2] as usize, a[3] as usize, a[4] as usize, a[5] as usize)?;
              let r = r_lh(&h);
              made = Some(Handle::H(h));
              Ok(r)
            })
          } else {
            run_guarded(|| {
              let d = LunarDay::new(a[0] as isize, a[1] as isize, a[2] as usize)?;
              let r = r_ld(&d);
              made = Some(Handle::D(d));
              Ok(r)
            })
          };
          let s1 = next_seq();
          slots[*slot] = made;
          ev2.lock().unwrap().push(EvalRec { tid: tid as u8, op: idx as u16, key: key_of(if *hour { "LH.new" } else { "LD.new" }, args), class: out.class(), digest: out.digest(), text: clip(out.text(), keep_text), from_handle: true, rnew: None, seq: (s0, s1) });
        }
        Op::HNext { slot, n } => {
          if let Some(h) = slots[*slot].take() {
            let mut base = handle_key_base(&h);
            base.push(*n);
            let s0 = next_seq();
            let mut made: Option<Handle> = None;
            let is_hour = matches!(h, Handle::H(_));
            let out = run_guarded(|| match &h {
              Handle::D(d) => {
                let x = d.next(*n as isize);
                let r = r_ld(&x);
                made = Some(Handle::D(x));
                Ok(r)
              }
              Handle::H(hh) => {
                let x = hh.next(*n as isize);
                let r = r_lh(&x);
                made = Some(Handle::H(x));
                Ok(r)
              }
            });
            let s1 = next_seq();
            slots[*slot] = made;
            ev2.lock().unwrap().push(EvalRec { tid: tid as u8, op: idx as u16, key: key_of(if is_hour { "LH.step" } else { "LD.step" }, &base), class: out.class(), digest: out.digest(), text: clip(out.text(), keep_text), from_handle: true, rnew: None, seq: (s0, s1) });
          }
        }
        Op::HClone { from, to } => {
          let c = match &slots[*from] {
            Some(Handle::D(d)) => Some(Handle::D(d.clone())),
            Some(Handle::H(h)) => Some(Handle::H(h.clone())),
            None => None,
          };
          if c.is_some() {
            slots[*to] = c;
          }
        }
        Op::HDay { from, to } => {
          // a LunarDay taken out of a LunarHour: carries whatever the hour has memoised so far
          let d = match &slots[*from] {
            Some(Handle::H(h)) => Some(Handle::D(h.get_lunar_day())),
            _ => None,
          };
          if d.is_some() {
            slots[*to] = d;
          }
        }
        Op::HHour { from, to, k } => {
          // one of the double-hours listed by a LunarDay
          let mut made: Option<Handle> = None;
          if let Some(Handle::D(d)) = &slots[*from] {
            let base = handle_key_base(&Handle::D(d.clone()));
            let s0 = next_seq();
            let kk = *k;
            let out = run_guarded(|| {
              let mut hours = d.get_hours();
              if kk >= hours.len() {
                return Err("no such hour".to_string());
              }
              let h = hours.swap_remove(kk);
              let r = r_lh(&h);
              made = Some(Handle::H(h));
              Ok(r)
            });
            let s1 = next_seq();
            let mut key_args = base.clone();
            key_args.push(kk as i64);
            ev2.lock().unwrap().push(EvalRec { tid: tid as u8, op: idx as u16, key: key_of("LD.hour", &key_args), class: out.class(), digest: out.digest(), text: clip(out.text(), keep_text), from_handle: true, rnew: None, seq: (s0, s1) });
          }
          if made.is_some() {
            slots[*to] = made;
          }
        }
        Op::HGet { slot, g } => {
          if let Some(h) = &slots[*slot] {
            let mut base = handle_key_base(h);
            let (name, gg) = match h {
              Handle::D(_) => ("LD.get", g % LD_GETTERS as i64),
              Handle::H(_) => ("LH.get", g % LH_GETTERS as i64),
            };
            base.push(gg);
            let s0 = next_seq();
            let out = run_guarded(|| match h {
              Handle::D(d) => Ok(ld_get(d, gg)),
              Handle::H(hh) => Ok(lh_get(hh, gg)),
            });
            let s1 = next_seq();
            ev2.lock().unwrap().push(EvalRec { tid: tid as u8, op: idx as u16, key: key_of(name, &base), class: out.class(), digest: out.digest(), text: clip(out.text(), keep_text), from_handle: true, rnew: None, seq: (s0, s1) });
          }
        }
      }
      if stop_now {
        break;
      }
    }
  };
  let est = (script.threads.iter().map(|t| t.len()).sum::<usize>() as u64) * 12;
  let result = sim().run(script.threads.len(), script.policy.clone(), script.sched_seed, STEP_BUDGET, keep_log, est, watchdog, Arc::new(body));
  let evals = std::mem::take(&mut *evals.lock().unwrap());
  ExecOut { evals, result }
}
