//! Executes one run script under the baton scheduler and records every evaluation.

use std::sync::{Arc, Mutex};
use std::time::Duration;

use crate::handles::{Handle, HCMP_KEY, HGETTERS, HGET_KEY, HNEW_KEY, HSTEP_KEY};
use crate::query::*;
use crate::sched::{sim, RunResult};
use crate::script::{Op, RunScript, SLOTS};

#[derive(Clone, Debug)]
pub struct EvalRec {
  pub tid: u8,
  pub op: u16,
  pub key: String,
  pub class: char,
  pub digest: u64,
  pub text: String,
  pub from_handle: bool,
  /// for LM.from_ym: class and digest of the uncached reference LunarMonth::new
  pub rnew: Option<(char, u64, String)>,
  /// global sequence numbers of invoke and return (scheduler event order)
  pub seq: (u64, u64),
}

pub struct ExecOut {
  pub evals: Vec<EvalRec>,
  pub result: RunResult,
}

/// Far above anything legitimate (the largest operation observed makes about 350 steps; a week
/// stepped by a few thousand makes some 10^4), far below what an endless loop reaches in a second.
pub const STEP_BUDGET: u64 = 1_000_000;

fn clip(s: &str, keep_text: bool) -> String {
  if keep_text {
    s.to_string()
  } else {
    String::new()
  }
}

fn key_of(name: &str, args: &[i64]) -> String {
  let mut s = String::from(name);
  for a in args {
    s.push(' ');
    s.push_str(&a.to_string());
  }
  s
}

/// Reset the library to the state of a fresh process (quiescent points only).
pub fn reset_library() {
  tyme4rs::tyme::lunar::verif_reset();
  tyme4rs::tyme::eightchar::verif_reset();
}

pub fn exec_run(script: &RunScript, keep_log: bool, keep_text: bool, watchdog: Duration) -> ExecOut {
  exec_run_opt(script, keep_log, keep_text, watchdog, true)
}

/// `with_rnew`: also evaluate the uncached LunarMonth::new next to every LM.from_ym.
pub fn exec_run_opt(script: &RunScript, keep_log: bool, keep_text: bool, watchdog: Duration, with_rnew: bool) -> ExecOut {
  if script.reset {
    reset_library();
  }
  tyme4rs::tyme::verif::set_hash_seed(script.hash_seed);
  if script.alloc_period > 0 && script.threads.len() > 1 {
    // With allocation yield points a thread could be parked inside a `Once` initialiser of one of
    // the library's immutable lazy tables while another thread needs it. Touch those tables here
    // (pure series evaluation and the leap table, laid out under this run's hash seed; none of the
    // three mutexes, no memo).
    use tyme4rs::tyme::util::ShouXingUtil;
    for jd in [-730000.0f64, -547000.0, -182000.0, 0.0, 1095000.0] {
      let _ = std::panic::catch_unwind(|| (ShouXingUtil::calc_shuo(jd), ShouXingUtil::calc_qi(jd)));
    }
    let _ = std::panic::catch_unwind(|| tyme4rs::tyme::lunar::LunarYear::from_year(2000).get_leap_month());
    if !script.reset {
      let _ = tyme4rs::tyme::lunar::verif_state();
      let _ = tyme4rs::tyme::eightchar::verif_state();
    }
  }
  let evals: Arc<Mutex<Vec<EvalRec>>> = Arc::new(Mutex::new(Vec::new()));
  let seq: Arc<std::sync::atomic::AtomicU64> = Arc::new(std::sync::atomic::AtomicU64::new(0));
  let threads: Arc<Vec<Vec<Op>>> = Arc::new(script.threads.clone());
  let alloc_period: u32 = script.alloc_period;
  crate::sched::RUN_ALLOC_PERIOD.store(alloc_period, std::sync::atomic::Ordering::SeqCst);
  let ev2 = evals.clone();
  // exchange slots of this run: values put here by one thread are taken by another (hput/htake).
  // A harness mutex, not one of the library's: no yield point, never contended under the baton.
  let exchange: Arc<Vec<Mutex<Option<Handle>>>> = Arc::new((0..crate::script::GSLOTS).map(|_| Mutex::new(None)).collect());
  let body = move |tid: usize| {
    let ops = &threads[tid];
    let mut slots: Vec<Option<Handle>> = (0..SLOTS).map(|_| None).collect();
    let next_seq = || seq.fetch_add(1, std::sync::atomic::Ordering::SeqCst);
    for (idx, op) in ops.iter().enumerate() {
      if !sim().op_start(tid, idx as u32) {
        break;
      }
      crate::sched::set_alloc_plan(alloc_period, (tid as u32).wrapping_mul(7).wrapping_add((idx as u32).wrapping_mul(13)));
      let mut stop_now = false;
      match op {
        Op::Q { q, stop } => {
          let s0 = next_seq();
          let out = q.eval();
          let s1 = next_seq();
          let rnew = if with_rnew && q.kind == K_LM_FROM_YM {
            let r = Query::new(K_LM_NEW, q.args.clone()).eval();
            Some((r.class(), r.digest(), clip(r.text(), keep_text)))
          } else {
            None
          };
          if *stop && out.class() == 'R' {
            stop_now = true;
          }
          ev2.lock().unwrap().push(EvalRec { tid: tid as u8, op: idx as u16, key: q.key(), class: out.class(), digest: out.digest(), text: clip(out.text(), keep_text), from_handle: false, rnew, seq: (s0, s1) });
        }
        Op::QRep { q, times } => {
          let s0 = next_seq();
          let first = q.eval();
          let mut out = first.clone();
          let mut odd: Option<Outcome> = None;
          for _ in 1..*times {
            // every repetition is an operation of its own for the step budget
            if !sim().op_start(tid, idx as u32) {
              break;
            }
            out = q.eval();
            if odd.is_none() && (out.class() != first.class() || out.digest() != first.digest()) {
              // an answer that differs from the first one of this very loop (a transient wrong
              // answer under contention): recorded as an evaluation of its own
              odd = Some(out.clone());
            }
          }
          let s1 = next_seq();
          if let Some(o) = odd {
            ev2.lock().unwrap().push(EvalRec { tid: tid as u8, op: idx as u16, key: q.key(), class: first.class(), digest: first.digest(), text: clip(first.text(), keep_text), from_handle: false, rnew: None, seq: (s0, s0) });
            ev2.lock().unwrap().push(EvalRec { tid: tid as u8, op: idx as u16, key: q.key(), class: o.class(), digest: o.digest(), text: clip(o.text(), keep_text), from_handle: false, rnew: None, seq: (s0, s1) });
          }
          let rnew = if with_rnew && q.kind == K_LM_FROM_YM {
            let r = Query::new(K_LM_NEW, q.args.clone()).eval();
            Some((r.class(), r.digest(), clip(r.text(), keep_text)))
          } else {
            None
          };
          ev2.lock().unwrap().push(EvalRec { tid: tid as u8, op: idx as u16, key: q.key(), class: out.class(), digest: out.digest(), text: clip(out.text(), keep_text), from_handle: false, rnew, seq: (s0, s1) });
        }
        Op::QAlt { qs, times } => {
          let s0 = next_seq();
          let firsts: Vec<Outcome> = qs.iter().map(|q| q.eval()).collect();
          let mut odd: Vec<Option<Outcome>> = qs.iter().map(|_| None).collect();
          for i in 0..*times {
            if i & 0x3ff == 0 && !sim().op_start(tid, idx as u32) {
              break;
            }
            let k = (i % qs.len() as u64) as usize;
            let out = qs[k].eval();
            if odd[k].is_none() && (out.class() != firsts[k].class() || out.digest() != firsts[k].digest()) {
              odd[k] = Some(out);
            }
          }
          let s1 = next_seq();
          for (k, q) in qs.iter().enumerate() {
            ev2.lock().unwrap().push(EvalRec { tid: tid as u8, op: idx as u16, key: q.key(), class: firsts[k].class(), digest: firsts[k].digest(), text: clip(firsts[k].text(), keep_text), from_handle: false, rnew: None, seq: (s0, s0) });
            if let Some(o) = &odd[k] {
              ev2.lock().unwrap().push(EvalRec { tid: tid as u8, op: idx as u16, key: q.key(), class: o.class(), digest: o.digest(), text: clip(o.text(), keep_text), from_handle: false, rnew: None, seq: (s0, s1) });
            }
          }
        }
        Op::HNew { slot, kind, args } => {
          let a = args.clone();
          let k = *kind;
          let s0 = next_seq();
          let mut made: Option<Handle> = None;
          let out = run_guarded(|| {
            let h = Handle::make(k, &a)?;
            let r = h.render();
            made = Some(h);
            Ok(r)
          });
          let s1 = next_seq();
          // a value that an equal fresh value cannot be built for (see Handle::reliable) is not
          // kept: nothing derived from it could be compared either
          slots[*slot] = made.filter(|h| h.reliable());
          ev2.lock().unwrap().push(EvalRec { tid: tid as u8, op: idx as u16, key: key_of(HNEW_KEY[k], args), class: out.class(), digest: out.digest(), text: clip(out.text(), keep_text), from_handle: true, rnew: None, seq: (s0, s1) });
        }
        Op::HNext { slot, n } => {
          if slots[*slot].as_ref().map(|h| !h.steppable()).unwrap_or(false) {
            // no `next` of its own: nothing to do
          } else if let Some(h) = slots[*slot].take() {
            let k = h.kind();
            let mut base = h.base();
            base.push(*n);
            let s0 = next_seq();
            let mut made: Option<Handle> = None;
            let out = run_guarded(|| {
              let x = h.step(*n);
              let r = x.render();
              made = Some(x);
              Ok(r)
            });
            let s1 = next_seq();
            let ok_identity = h.reliable() && made.as_ref().map(|x| x.reliable()).unwrap_or(true);
            slots[*slot] = if ok_identity { made } else { None };
            if ok_identity {
            ev2.lock().unwrap().push(EvalRec { tid: tid as u8, op: idx as u16, key: key_of(HSTEP_KEY[k], &base), class: out.class(), digest: out.digest(), text: clip(out.text(), keep_text), from_handle: true, rnew: None, seq: (s0, s1) });
            }
          }
        }
        Op::HPut { slot, g } => {
          if let Some(h) = slots[*slot].as_ref().filter(|h| h.reliable()) {
            let c = h.dup();
            *exchange[*g].lock().unwrap_or_else(|e| e.into_inner()) = Some(c);
          }
        }
        Op::HTake { slot, g } => {
          let got = exchange[*g].lock().unwrap_or_else(|e| e.into_inner()).take();
          if got.is_some() {
            slots[*slot] = got;
          }
        }
        Op::HClone { from, to } => {
          let c = slots[*from].as_ref().map(|h| h.dup());
          if c.is_some() {
            slots[*to] = c;
          }
        }
        Op::HDay { from, to, variant } => {
          // a value taken out of another one: carries whatever that one has memoised so far
          let mut d: Option<Handle> = None;
          if let Some(h) = &slots[*from] {
            let _ = run_guarded(|| {
              d = h.derive(*variant);
              Ok(String::new())
            });
          }
          if d.is_some() {
            slots[*to] = d.filter(|x| x.reliable());
          }
        }
        Op::HHour { from, to, k } => {
          // one of the double-hours listed by a day
          let mut made: Option<Handle> = None;
          if let Some(h) = &slots[*from] {
            if h.kind() == 0 || h.kind() == 2 {
              let mut key_args = h.base();
              key_args.push(*k as i64);
              let name = if h.kind() == 0 { "LD.hour" } else { "SCD.hour" };
              let s0 = next_seq();
              let kk = *k;
              let out = run_guarded(|| {
                let x = h.hour(kk)?;
                let r = x.render();
                made = Some(x);
                Ok(r)
              });
              let s1 = next_seq();
              ev2.lock().unwrap().push(EvalRec { tid: tid as u8, op: idx as u16, key: key_of(name, &key_args), class: out.class(), digest: out.digest(), text: clip(out.text(), keep_text), from_handle: true, rnew: None, seq: (s0, s1) });
            }
          }
          if made.is_some() {
            slots[*to] = made.filter(|x| x.reliable());
          }
        }
        Op::HCmp { a, b } => {
          if let (Some(x), Some(y)) = (&slots[*a], &slots[*b]) {
            if x.kind() == y.kind() && x.reliable() && y.reliable() {
              let k = x.kind();
              let mut base = x.base();
              base.extend(y.base());
              let s0 = next_seq();
              let out = run_guarded(|| x.compare(y).ok_or("not comparable".to_string()));
              let s1 = next_seq();
              ev2.lock().unwrap().push(EvalRec { tid: tid as u8, op: idx as u16, key: key_of(HCMP_KEY[k], &base), class: out.class(), digest: out.digest(), text: clip(out.text(), keep_text), from_handle: true, rnew: None, seq: (s0, s1) });
            }
          }
        }
        Op::HGet { slot, g } => {
          if let Some(h) = slots[*slot].as_ref().filter(|h| h.reliable()) {
            let k = h.kind();
            let mut base = h.base();
            let gg = g % HGETTERS[k] as i64;
            base.push(gg);
            let s0 = next_seq();
            let out = run_guarded(|| Ok(h.get(gg)));
            let s1 = next_seq();
            ev2.lock().unwrap().push(EvalRec { tid: tid as u8, op: idx as u16, key: key_of(HGET_KEY[k], &base), class: out.class(), digest: out.digest(), text: clip(out.text(), keep_text), from_handle: true, rnew: None, seq: (s0, s1) });
          }
        }
      }
      if stop_now {
        break;
      }
    }
  };
  let est = (script.threads.iter().map(|t| t.len()).sum::<usize>() as u64) * 12;
  let result = sim().run(script.threads.len(), script.policy.clone(), script.sched_seed, STEP_BUDGET, keep_log, est, watchdog, Arc::new(body));
  let evals = std::mem::take(&mut *evals.lock().unwrap());
  ExecOut { evals, result }
}
