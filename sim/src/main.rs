//! tyme-sim: deterministic simulation worker for property C10 of tyme4rs.
//!
//! Modes (first argument):
//!   explore    seeded search over histories x schedules x fault sequences
//!   sweep      one history asking every valid lunar month twice, in a seeded order
//!   hashorder  every lunar year under many hash-map iteration orders
//!   longrun    the same N distinct queries in one long-lived process, one order per process
//!   replay     execute a script file exactly and print every evaluation
//!   single     evaluate one query in this (fresh) process
//!
//! Exit codes: 0 normal (violations, if any, are in the output file), 2 harness error.

mod exec;
mod gen;
mod handles;
mod modes;
mod query;
mod rng;
mod sched;
mod script;

#[global_allocator]
static GLOBAL: sched::YieldAlloc = sched::YieldAlloc;

fn parent_pid() -> u64 {
  // field 4 of /proc/self/stat, after the parenthesised command name
  match std::fs::read_to_string("/proc/self/stat") {
    Ok(t) => t.rsplit(')').next().and_then(|r| r.split_whitespace().nth(1).map(|x| x.parse::<u64>().unwrap_or(0))).unwrap_or(0),
    Err(_) => 0,
  }
}

fn main() {
  if std::env::var("TYME_SIM_PANICS").is_err() {
    std::panic::set_hook(Box::new(|_| {}));
  }
  // a worker whose driver has died (killed, timed out) must not keep running: poll the parent pid
  let ppid0 = parent_pid();
  std::thread::Builder::new()
    .name("orphan-guard".to_string())
    .spawn(move || loop {
      std::thread::sleep(std::time::Duration::from_secs(2));
      if parent_pid() != ppid0 {
        std::process::exit(3);
      }
    })
    .ok();
  let args: Vec<String> = std::env::args().collect();
  if args.len() < 2 {
    eprintln!("usage: tyme-sim <explore|sweep|hashorder|replay|single> ...");
    std::process::exit(2);
  }
  let rest: Vec<String> = args[2..].to_vec();
  let code = match args[1].as_str() {
    "explore" => modes::explore(&rest),
    "sweep" => modes::sweep(&rest),
    "hashorder" => modes::hashorder(&rest),
    "hotkey" => modes::hotkey(&rest),
    "longrun" => modes::longrun(&rest),
    "replay" => modes::replay(&rest),
    "single" => modes::single(&rest),
    "kinds" => {
      for k in query::KINDS {
        println!("{} {} {}", k.name, k.arity, query::FAMILIES[k.family]);
      }
      0
    }
    other => {
      eprintln!("unknown mode {}", other);
      2
    }
  };
  std::process::exit(code);
}
