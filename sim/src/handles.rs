//! Values kept across operations in per-thread slots ("handles"): created, queried, stepped,
//! cloned and derived from one another, then compared — under the key of the equivalent plain
//! query — with a value built afresh. This is obligation V: whatever a value has memoised, and
//! whatever it was derived from, it must answer like an equal value that has no past.

use tyme4rs::tyme::lunar::{LunarDay, LunarHour, LunarWeek};
use tyme4rs::tyme::sixtycycle::{SixtyCycleDay, SixtyCycleHour};
use tyme4rs::tyme::solar::{SolarDay, SolarTerm, SolarTime};
use tyme4rs::tyme::Tyme;

use crate::query::*;

pub enum Handle {
  D(LunarDay),
  H(LunarHour),
  CD(SixtyCycleDay),
  CH(SixtyCycleHour),
  W(LunarWeek),
  T(SolarTerm),
}

pub const HKINDS: [&str; 6] = ["LD", "LH", "SCD", "SCH", "LW", "TERM"];
pub const HARITY: [usize; 6] = [3, 6, 3, 6, 4, 2];
pub const HGETTERS: [usize; 6] = [LD_GETTERS, LH_GETTERS, 12, 8, 4, 4];
/// key names of the plain queries equivalent to creating / querying / stepping a handle
pub const HNEW_KEY: [&str; 6] = ["LD.new", "LH.new", "SCD.new", "SCH.new", "LW.new", "TERM.new"];
pub const HGET_KEY: [&str; 6] = ["LD.get", "LH.get", "SCD.get", "SCH.get", "LW.get", "TERM.get"];
pub const HSTEP_KEY: [&str; 6] = ["LD.step", "LH.step", "SCD.next", "SCH.next", "LW.step", "TERM.next"];
pub const HCMP_KEY: [&str; 6] = ["LD.cmp", "LH.cmp", "SCD.cmp", "SCH.cmp", "LW.cmp", "TERM.cmp"];

fn u(x: i64) -> usize {
  x as usize
}

fn i(x: i64) -> isize {
  x as isize
}

impl Handle {
  /// Build a value of `kind` from integer arguments (may panic or refuse, like the library).
  pub fn make(kind: usize, a: &[i64]) -> Result<Handle, String> {
    Ok(match kind {
      0 => Handle::D(LunarDay::new(i(a[0]), i(a[1]), u(a[2]))?),
      1 => Handle::H(LunarHour::new(i(a[0]), i(a[1]), u(a[2]), u(a[3]), u(a[4]), u(a[5]))?),
      2 => Handle::CD(SixtyCycleDay::from_solar_day(SolarDay::new(i(a[0]), u(a[1]), u(a[2]))?)),
      3 => Handle::CH(SixtyCycleHour::from_solar_time(SolarTime::new(i(a[0]), u(a[1]), u(a[2]), u(a[3]), u(a[4]), u(a[5]))?)),
      4 => Handle::W(LunarWeek::new(i(a[0]), i(a[1]), u(a[2]), u(a[3]))?),
      _ => Handle::T(SolarTerm::from_index(i(a[0]), i(a[1]))),
    })
  }

  pub fn kind(&self) -> usize {
    match self {
      Handle::D(_) => 0,
      Handle::H(_) => 1,
      Handle::CD(_) => 2,
      Handle::CH(_) => 3,
      Handle::W(_) => 4,
      Handle::T(_) => 5,
    }
  }

  /// The arguments from which an equal value can be built afresh, as the value itself reports them.
  pub fn base(&self) -> Vec<i64> {
    match self {
      Handle::D(d) => vec![d.get_year() as i64, d.get_month() as i64, d.get_day() as i64],
      Handle::H(h) => vec![h.get_year() as i64, h.get_month() as i64, h.get_day() as i64, h.get_hour() as i64, h.get_minute() as i64, h.get_second() as i64],
      Handle::CD(d) => {
        let s = d.get_solar_day();
        vec![s.get_year() as i64, s.get_month() as i64, s.get_day() as i64]
      }
      Handle::CH(h) => {
        let t = h.get_solar_time();
        vec![t.get_year() as i64, t.get_month() as i64, t.get_day() as i64, t.get_hour() as i64, t.get_minute() as i64, t.get_second() as i64]
      }
      Handle::W(w) => vec![w.get_year() as i64, w.get_month() as i64, w.get_index() as i64, w.get_start().get_index() as i64],
      Handle::T(t) => vec![t.get_year() as i64, t.get_index() as i64],
    }
  }

  /// Can an equal value be rebuilt from `base()`? Not for solar terms of years < 1: there
  /// `SolarTerm::from_index(t.get_year(), t.get_index())` is a different term (the year is
  /// derived with a truncating division), a pure quirk outside C10 — such handles are exercised
  /// but their answers are not compared under a plain-query key.
  pub fn reliable(&self) -> bool {
    match self {
      Handle::T(t) => t.get_year() >= 1 && t.get_year() <= 9998,
      _ => true,
    }
  }

  pub fn render(&self) -> String {
    match self {
      Handle::D(d) => r_ld(d),
      Handle::H(h) => r_lh(h),
      Handle::CD(d) => r_scd(d),
      Handle::CH(h) => r_sch(h),
      Handle::W(w) => r_lw(w),
      Handle::T(t) => r_term(t),
    }
  }

  pub fn get(&self, g: i64) -> String {
    match self {
      Handle::D(d) => ld_get(d, g),
      Handle::H(h) => lh_get(h, g),
      Handle::CD(d) => match g {
        0 => r_scd(d),
        1 => d.get_duty().to_string(),
        2 => d.get_twelve_star().to_string(),
        3 => d.get_nine_star().to_string(),
        4 => d.get_twenty_eight_star().to_string(),
        5 => d.get_fetus_day().to_string(),
        6 => gods(&d.get_gods()),
        7 => taboos(&d.get_recommends()),
        8 => taboos(&d.get_avoids()),
        9 => join(&d.get_hours(), |h| r_sch(h)),
        10 => r_scd(&d.get_sixty_cycle_month().get_first_day()),
        _ => format!("{} {}", d.get_jupiter_direction(), r_sd(&d.get_solar_day())),
      },
      Handle::CH(h) => match g {
        0 => r_sch(h),
        1 => r_ec(&h.get_eight_char()),
        2 => h.get_nine_star().to_string(),
        3 => h.get_twelve_star().to_string(),
        4 => taboos(&h.get_recommends()),
        5 => taboos(&h.get_avoids()),
        6 => r_scd(&h.get_sixty_cycle_day()),
        _ => format!("{} {}", r_st(&h.get_solar_time()), h.get_index_in_day()),
      },
      Handle::W(w) => match g {
        0 => r_lw(w),
        1 => r_ld(&w.get_first_day()),
        2 => join(&w.get_days(), |d| r_ld(d)),
        _ => r_lm(&w.get_lunar_month()),
      },
      Handle::T(t) => match g {
        0 => r_term(t),
        1 => r_st(&t.get_julian_day().get_solar_time()),
        2 => format!("{} {}", t.is_jie(), t.is_qi()),
        _ => r_sd(&t.get_julian_day().get_solar_day()),
      },
    }
  }

  pub fn step(&self, n: i64) -> Handle {
    match self {
      Handle::D(d) => Handle::D(d.next(i(n))),
      Handle::H(h) => Handle::H(h.next(i(n))),
      Handle::CD(d) => Handle::CD(d.next(i(n))),
      Handle::CH(h) => Handle::CH(h.next(i(n))),
      Handle::W(w) => Handle::W(w.next(i(n))),
      Handle::T(t) => Handle::T(t.next(i(n))),
    }
  }

  pub fn dup(&self) -> Handle {
    match self {
      Handle::D(d) => Handle::D(d.clone()),
      Handle::H(h) => Handle::H(h.clone()),
      Handle::CD(d) => Handle::CD(d.clone()),
      Handle::CH(h) => Handle::CH(h.clone()),
      Handle::W(w) => Handle::W(w.clone()),
      Handle::T(t) => Handle::T(t.clone()),
    }
  }

  /// A value contained in / computed from this one, carrying whatever this one has memoised:
  /// variant 0: lunar hour -> its lunar day, week -> its first day;
  /// variant 1: lunar hour -> sixty-cycle hour, lunar day -> sixty-cycle day.
  /// (Not: sixty-cycle hour -> its sixty-cycle day. By design that day carries the hour-level
  /// pillars — from 23:00 the next day's pillar, on a term day the pillars as of that instant —
  /// so it is a different value from `SixtyCycleDay::from_solar_day` of the same solar day and
  /// cannot be compared under a plain-query key.)
  pub fn derive(&self, variant: usize) -> Option<Handle> {
    match (self, variant) {
      (Handle::H(h), 0) => Some(Handle::D(h.get_lunar_day())),
      (Handle::W(w), 0) => Some(Handle::D(w.get_first_day())),
      (Handle::H(h), 1) => Some(Handle::CH(h.get_sixty_cycle_hour())),
      (Handle::D(d), 1) => Some(Handle::CD(d.get_sixty_cycle_day())),
      _ => None,
    }
  }

  /// Ordering and equality of two values of the same kind (lunar days, lunar hours).
  pub fn compare(&self, other: &Handle) -> Option<String> {
    match (self, other) {
      (Handle::D(a), Handle::D(b)) => Some(format!("before={} after={} eq={}", a.is_before(b.clone()), a.is_after(b.clone()), a == b)),
      (Handle::H(a), Handle::H(b)) => Some(format!("before={} after={} eq={}", a.is_before(b.clone()), a.is_after(b.clone()), a == b)),
      (Handle::CD(a), Handle::CD(b)) => Some(format!("eq={}", a == b)),
      (Handle::CH(a), Handle::CH(b)) => Some(format!("eq={}", a == b)),
      (Handle::W(a), Handle::W(b)) => Some(format!("eq={}", a == b)),
      (Handle::T(a), Handle::T(b)) => Some(format!("eq={}", a == b)),
      _ => None,
    }
  }

  /// The k-th double-hour listed by a day (lunar or sixty-cycle).
  pub fn hour(&self, k: usize) -> Result<Handle, String> {
    match self {
      Handle::D(d) => {
        let mut hours = d.get_hours();
        if k >= hours.len() {
          return Err("no such hour".to_string());
        }
        Ok(Handle::H(hours.swap_remove(k)))
      }
      Handle::CD(d) => {
        let mut hours = d.get_hours();
        if k >= hours.len() {
          return Err("no such hour".to_string());
        }
        Ok(Handle::CH(hours.swap_remove(k)))
      }
      _ => Err("not a day".to_string()),
    }
  }
}
