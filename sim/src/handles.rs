//! Values kept across operations in per-thread slots ("handles"): created, queried, stepped,
//! cloned and derived from one another, then compared — under the key of the equivalent plain
//! query — with a value built afresh. This is obligation V: whatever a value has memoised, and
//! whatever it was derived from, it must answer like an equal value that has no past.

use tyme4rs::tyme::eightchar::{ChildLimit, DecadeFortune, EightChar, Fortune};
use tyme4rs::tyme::enums::Gender;
use tyme4rs::tyme::festival::LunarFestival;
use tyme4rs::tyme::lunar::{LunarDay, LunarHour, LunarWeek};
use tyme4rs::tyme::sixtycycle::{SixtyCycle, SixtyCycleMonth};
use tyme4rs::tyme::Culture;
use tyme4rs::tyme::sixtycycle::{SixtyCycleDay, SixtyCycleHour};
use tyme4rs::tyme::solar::{SolarDay, SolarTerm, SolarTime};
use tyme4rs::tyme::Tyme;

use crate::query::*;

pub enum Handle {
  D(LunarDay),
  H(LunarHour),
  CD(SixtyCycleDay),
  CH(SixtyCycleHour),
  W(LunarWeek),
  T(SolarTerm),
  /// eight characters, plus the calendar year its range queries are centred on
  EC(EightChar, i64),
  CL(ChildLimit),
  DF(DecadeFortune),
  FT(Fortune),
  CM(SixtyCycleMonth),
  LF(LunarFestival),
}

pub const NHK: usize = 12;
pub const HKINDS: [&str; NHK] = ["LD", "LH", "SCD", "SCH", "LW", "TERM", "EC", "CLH", "DF", "FT", "SCM", "LF"];
/// number of integers from which an equal value can be built (`make`)
pub const HARITY: [usize; NHK] = [3, 6, 3, 6, 4, 2, 5, 7, 8, 8, 2, 2];
pub const HGETTERS: [usize; NHK] = [LD_GETTERS, LH_GETTERS, 12, 8, 4, 4, 66, 6, 6, 5, 6, 3];
/// key names of the plain queries equivalent to creating / querying / stepping / comparing
pub const HNEW_KEY: [&str; NHK] = ["LD.new", "LH.new", "SCD.new", "SCH.new", "LW.new", "TERM.new", "EC.mk", "CLH.new", "DF.new", "FT.new", "SCM.new", "LF.new"];
pub const HGET_KEY: [&str; NHK] = ["LD.get", "LH.get", "SCD.get", "SCH.get", "LW.get", "TERM.get", "EC.get", "CLH.get", "DF.get", "FT.get", "SCM.get", "LF.get"];
pub const HSTEP_KEY: [&str; NHK] = ["LD.step", "LH.step", "SCD.next", "SCH.next", "LW.step", "TERM.next", "EC.step", "CLH.step", "DF.step", "FT.step", "SCM.step", "LF.step"];
pub const HCMP_KEY: [&str; NHK] = ["LD.cmp", "LH.cmp", "SCD.cmp", "SCH.cmp", "LW.cmp", "TERM.cmp", "EC.cmp", "CLH.cmp", "DF.cmp", "FT.cmp", "SCM.cmp", "LF.cmp"];

const EC_START_BACK: [i64; 8] = [0, 1, 2, 59, 60, 61, 120, 180];
const EC_END_FWD: [i64; 8] = [-2, -1, 0, 1, 2, 58, 60, 120];

fn gender_of(x: i64) -> Gender {
  if x == 0 {
    Gender::WOMAN
  } else {
    Gender::MAN
  }
}

fn cl_base(c: &ChildLimit) -> Vec<i64> {
  let t = c.get_start_time();
  vec![t.get_year() as i64, t.get_month() as i64, t.get_day() as i64, t.get_hour() as i64, t.get_minute() as i64, t.get_second() as i64, if c.get_gender() == Gender::MAN { 1 } else { 0 }]
}

fn r_df(d: &DecadeFortune) -> String {
  format!("DF({} {} age={}..{} scy={}..{} sc={})", d.get_name(), d.get_index(), d.get_start_age(), d.get_end_age(), d.get_start_sixty_cycle_year(), d.get_end_sixty_cycle_year(), d.get_sixty_cycle())
}

fn r_ft(f: &Fortune) -> String {
  format!("FT({} {} age={} scy={} sc={})", f.get_name(), f.get_index(), f.get_age(), f.get_sixty_cycle_year(), f.get_sixty_cycle())
}

fn u(x: i64) -> usize {
  x as usize
}

fn i(x: i64) -> isize {
  x as isize
}

impl Handle {
  /// Build a value of `kind` from integer arguments (may panic or refuse, like the library).
  pub fn make(kind: usize, a: &[i64]) -> Result<Handle, String> {
    Ok(match kind {
      0 => Handle::D(LunarDay::new(i(a[0]), i(a[1]), u(a[2]))?),
      1 => Handle::H(LunarHour::new(i(a[0]), i(a[1]), u(a[2]), u(a[3]), u(a[4]), u(a[5]))?),
      2 => Handle::CD(SixtyCycleDay::from_solar_day(SolarDay::new(i(a[0]), u(a[1]), u(a[2]))?)),
      3 => Handle::CH(SixtyCycleHour::from_solar_time(SolarTime::new(i(a[0]), u(a[1]), u(a[2]), u(a[3]), u(a[4]), u(a[5]))?)),
      4 => Handle::W(LunarWeek::new(i(a[0]), i(a[1]), u(a[2]), u(a[3]))?),
      5 => Handle::T(SolarTerm::from_index(i(a[0]), i(a[1]))),
      6 => Handle::EC(EightChar::from_sixty_cycle(SixtyCycle::from_index(i(a[0])), SixtyCycle::from_index(i(a[1])), SixtyCycle::from_index(i(a[2])), SixtyCycle::from_index(i(a[3]))), a[4]),
      7 => Handle::CL(ChildLimit::from_solar_time(SolarTime::new(i(a[0]), u(a[1]), u(a[2]), u(a[3]), u(a[4]), u(a[5]))?, gender_of(a[6]))),
      8 => Handle::DF(DecadeFortune::from_child_limit(ChildLimit::from_solar_time(SolarTime::new(i(a[0]), u(a[1]), u(a[2]), u(a[3]), u(a[4]), u(a[5]))?, gender_of(a[6])), i(a[7]))),
      9 => Handle::FT(Fortune::from_child_limit(ChildLimit::from_solar_time(SolarTime::new(i(a[0]), u(a[1]), u(a[2]), u(a[3]), u(a[4]), u(a[5]))?, gender_of(a[6])), i(a[7]))),
      10 => Handle::CM(SixtyCycleMonth::from_index(i(a[0]), i(a[1]))),
      _ => Handle::LF(LunarFestival::from_index(i(a[0]), u(a[1])).ok_or("no such festival".to_string())?),
    })
  }

  pub fn kind(&self) -> usize {
    match self {
      Handle::D(_) => 0,
      Handle::H(_) => 1,
      Handle::CD(_) => 2,
      Handle::CH(_) => 3,
      Handle::W(_) => 4,
      Handle::T(_) => 5,
      Handle::EC(_, _) => 6,
      Handle::CL(_) => 7,
      Handle::DF(_) => 8,
      Handle::FT(_) => 9,
      Handle::CM(_) => 10,
      Handle::LF(_) => 11,
    }
  }

  /// The arguments from which an equal value can be built afresh, as the value itself reports them.
  pub fn base(&self) -> Vec<i64> {
    match self {
      Handle::D(d) => vec![d.get_year() as i64, d.get_month() as i64, d.get_day() as i64],
      Handle::H(h) => vec![h.get_year() as i64, h.get_month() as i64, h.get_day() as i64, h.get_hour() as i64, h.get_minute() as i64, h.get_second() as i64],
      Handle::CD(d) => {
        let s = d.get_solar_day();
        vec![s.get_year() as i64, s.get_month() as i64, s.get_day() as i64]
      }
      Handle::CH(h) => {
        let t = h.get_solar_time();
        vec![t.get_year() as i64, t.get_month() as i64, t.get_day() as i64, t.get_hour() as i64, t.get_minute() as i64, t.get_second() as i64]
      }
      Handle::W(w) => vec![w.get_year() as i64, w.get_month() as i64, w.get_index() as i64, w.get_start().get_index() as i64],
      Handle::T(t) => vec![t.get_year() as i64, t.get_index() as i64],
      Handle::EC(e, y0) => vec![e.get_year().get_index() as i64, e.get_month().get_index() as i64, e.get_day().get_index() as i64, e.get_hour().get_index() as i64, *y0],
      Handle::CL(c) => cl_base(c),
      Handle::DF(d) => {
        let mut b = cl_base(&d.get_child_limit());
        b.push(d.get_index() as i64);
        b
      }
      Handle::FT(f) => {
        let mut b = cl_base(&f.get_child_limit());
        b.push(f.get_index() as i64);
        b
      }
      Handle::CM(m) => vec![m.get_sixty_cycle_year().get_year() as i64, m.get_index_in_year() as i64],
      Handle::LF(f) => vec![f.get_day().get_year() as i64, f.get_index() as i64],
    }
  }

  /// Can an equal value be rebuilt from `base()`? Not for solar terms of years < 1: there
  /// `SolarTerm::from_index(t.get_year(), t.get_index())` is a different term (the year is
  /// derived with a truncating division), a pure quirk outside C10 — such handles are exercised
  /// but their answers are not compared under a plain-query key.
  pub fn reliable(&self) -> bool {
    match self {
      Handle::T(t) => t.get_year() >= 2 && t.get_year() <= 9997,
      // the same at the edges for sixty-cycle months (stepping from year -1 to "year 1" keeps a
      // month pillar that from_index(1, i) does not give) and, to be safe, festivals
      Handle::CM(m) => m.get_sixty_cycle_year().get_year() >= 2 && m.get_sixty_cycle_year().get_year() <= 9997,
      Handle::LF(f) => f.get_day().get_year() >= 2 && f.get_day().get_year() <= 9997,
      _ => true,
    }
  }

  pub fn render(&self) -> String {
    match self {
      Handle::D(d) => r_ld(d),
      Handle::H(h) => r_lh(h),
      Handle::CD(d) => r_scd(d),
      Handle::CH(h) => r_sch(h),
      Handle::W(w) => r_lw(w),
      Handle::T(t) => r_term(t),
      Handle::EC(e, _) => r_ec(e),
      Handle::CL(c) => r_cl(c),
      Handle::DF(d) => r_df(d),
      Handle::FT(f) => r_ft(f),
      Handle::CM(m) => r_scm(m),
      Handle::LF(f) => r_lf(f),
    }
  }

  pub fn get(&self, g: i64) -> String {
    match self {
      Handle::D(d) => ld_get(d, g),
      Handle::H(h) => lh_get(h, g),
      Handle::CD(d) => match g {
        0 => r_scd(d),
        1 => d.get_duty().to_string(),
        2 => d.get_twelve_star().to_string(),
        3 => d.get_nine_star().to_string(),
        4 => d.get_twenty_eight_star().to_string(),
        5 => d.get_fetus_day().to_string(),
        6 => gods(&d.get_gods()),
        7 => taboos(&d.get_recommends()),
        8 => taboos(&d.get_avoids()),
        9 => join(&d.get_hours(), |h| r_sch(h)),
        10 => r_scd(&d.get_sixty_cycle_month().get_first_day()),
        _ => format!("{} {}", d.get_jupiter_direction(), r_sd(&d.get_solar_day())),
      },
      Handle::CH(h) => match g {
        0 => r_sch(h),
        1 => r_ec(&h.get_eight_char()),
        2 => h.get_nine_star().to_string(),
        3 => h.get_twelve_star().to_string(),
        4 => taboos(&h.get_recommends()),
        5 => taboos(&h.get_avoids()),
        6 => r_scd(&h.get_sixty_cycle_day()),
        _ => format!("{} {}", r_st(&h.get_solar_time()), h.get_index_in_day()),
      },
      Handle::W(w) => match g {
        0 => r_lw(w),
        1 => r_ld(&w.get_first_day()),
        2 => join(&w.get_days(), |d| r_ld(d)),
        _ => r_lm(&w.get_lunar_month()),
      },
      Handle::T(t) => match g {
        0 => r_term(t),
        1 => r_st(&t.get_julian_day().get_solar_time()),
        2 => format!("{} {}", t.is_jie(), t.is_qi()),
        _ => r_sd(&t.get_julian_day().get_solar_day()),
      },
      Handle::EC(e, y0) => match g {
        0 => r_ec(e),
        1 => format!("{} {} {} {}", e.get_fetal_origin(), e.get_fetal_breath(), e.get_own_sign(), e.get_body_sign()),
        _ => {
          // the instants with these eight characters in a year range around y0
          let k = (g - 2).rem_euclid(64) as usize;
          let start = y0 - EC_START_BACK[k / 8];
          let end = y0 + EC_END_FWD[k % 8];
          format!("{}..{} {}", start, end, join(&e.get_solar_times(i(start), i(end)), |t| r_st(t)))
        }
      },
      Handle::CL(c) => match g {
        0 => r_cl(c),
        1 => r_ec(&c.get_eight_char()),
        2 => r_df(&c.get_start_decade_fortune()),
        3 => r_df(&c.get_decade_fortune()),
        4 => r_ft(&c.get_start_fortune()),
        _ => format!("{} {}", r_st(&c.get_end_time()), c.get_end_sixty_cycle_year()),
      },
      Handle::DF(d) => match g {
        0 => r_df(d),
        1 => r_cl(&d.get_child_limit()),
        2 => r_ft(&d.get_start_fortune()),
        3 => format!("{} {}", d.get_start_lunar_year(), d.get_end_lunar_year()),
        4 => d.get_sixty_cycle().to_string(),
        _ => format!("{} {}", d.get_start_age(), d.get_end_age()),
      },
      Handle::FT(f) => match g {
        0 => r_ft(f),
        1 => r_cl(&f.get_child_limit()),
        2 => f.get_lunar_year().to_string(),
        3 => f.get_sixty_cycle().to_string(),
        _ => f.get_age().to_string(),
      },
      Handle::CM(m) => match g {
        0 => r_scm(m),
        1 => r_scd(&m.get_first_day()),
        2 => join(&m.get_days(), |d| r_scd(d)),
        3 => m.get_nine_star().to_string(),
        4 => m.get_jupiter_direction().to_string(),
        _ => format!("{} {}", m.get_year(), m.get_sixty_cycle()),
      },
      Handle::LF(f) => match g {
        0 => r_lf(f),
        1 => r_ld(&f.get_day()),
        _ => format!("{} {}", f.get_name(), opt(f.get_solar_term().map(|t| r_term(&t)))),
      },
    }
  }

  pub fn step(&self, n: i64) -> Handle {
    match self {
      Handle::D(d) => Handle::D(d.next(i(n))),
      Handle::H(h) => Handle::H(h.next(i(n))),
      Handle::CD(d) => Handle::CD(d.next(i(n))),
      Handle::CH(h) => Handle::CH(h.next(i(n))),
      Handle::W(w) => Handle::W(w.next(i(n))),
      Handle::T(t) => Handle::T(t.next(i(n))),
      Handle::EC(e, y0) => Handle::EC(e.clone(), y0 + n),
      Handle::CL(c) => Handle::CL(c.clone()),
      Handle::DF(d) => Handle::DF(d.next(i(n))),
      Handle::FT(f) => Handle::FT(f.next(i(n))),
      Handle::CM(m) => Handle::CM(m.next(i(n))),
      Handle::LF(f) => match f.next(i(n)) {
        Some(x) => Handle::LF(x),
        None => Handle::LF(f.clone()),
      },
    }
  }

  /// kinds whose `step` is a real `next(n)` of the library
  pub fn steppable(&self) -> bool {
    !matches!(self, Handle::EC(_, _) | Handle::CL(_) | Handle::LF(_))
  }

  pub fn dup(&self) -> Handle {
    match self {
      Handle::D(d) => Handle::D(d.clone()),
      Handle::H(h) => Handle::H(h.clone()),
      Handle::CD(d) => Handle::CD(d.clone()),
      Handle::CH(h) => Handle::CH(h.clone()),
      Handle::W(w) => Handle::W(w.clone()),
      Handle::T(t) => Handle::T(t.clone()),
      Handle::EC(e, y0) => Handle::EC(e.clone(), *y0),
      Handle::CL(c) => Handle::CL(c.clone()),
      Handle::DF(d) => Handle::DF(d.clone()),
      Handle::FT(f) => Handle::FT(f.clone()),
      Handle::CM(m) => Handle::CM(m.clone()),
      Handle::LF(f) => Handle::LF(f.clone()),
    }
  }

  /// A value contained in / computed from this one, carrying whatever this one has memoised:
  /// variant 0: lunar hour -> its lunar day, week -> its first day;
  /// variant 1: lunar hour -> sixty-cycle hour, lunar day -> sixty-cycle day.
  /// (Not: sixty-cycle hour -> its sixty-cycle day. By design that day carries the hour-level
  /// pillars — from 23:00 the next day's pillar, on a term day the pillars as of that instant —
  /// so it is a different value from `SixtyCycleDay::from_solar_day` of the same solar day and
  /// cannot be compared under a plain-query key.)
  pub fn derive(&self, variant: usize) -> Option<Handle> {
    match (self, variant) {
      (Handle::H(h), 0) => Some(Handle::D(h.get_lunar_day())),
      (Handle::W(w), 0) => Some(Handle::D(w.get_first_day())),
      (Handle::H(h), 1) => Some(Handle::CH(h.get_sixty_cycle_hour())),
      (Handle::D(d), 1) => Some(Handle::CD(d.get_sixty_cycle_day())),
      // variant 2: the eight characters of an hour / of a child limit
      (Handle::H(h), 2) => Some(Handle::EC(h.get_eight_char(), h.get_solar_time().get_year() as i64)),
      (Handle::CH(h), 2) => Some(Handle::EC(h.get_eight_char(), h.get_solar_time().get_year() as i64)),
      (Handle::CL(c), 2) => Some(Handle::EC(c.get_eight_char(), c.get_start_time().get_year() as i64)),
      // child limit -> its first decade fortune / first fortune; decade fortune -> its first fortune
      (Handle::CL(c), 0) => Some(Handle::DF(c.get_start_decade_fortune())),
      (Handle::CL(c), 1) => Some(Handle::FT(c.get_start_fortune())),
      (Handle::DF(d), 1) => Some(Handle::FT(d.get_start_fortune())),
      (Handle::DF(d), 0) => Some(Handle::CL(d.get_child_limit())),
      (Handle::FT(f), 0) => Some(Handle::CL(f.get_child_limit())),
      (Handle::LF(f), 0) => Some(Handle::D(f.get_day())),
      (Handle::CM(m), 1) => Some(Handle::CD(m.get_first_day())),
      _ => None,
    }
  }

  /// Ordering and equality of two values of the same kind (lunar days, lunar hours).
  pub fn compare(&self, other: &Handle) -> Option<String> {
    match (self, other) {
      (Handle::D(a), Handle::D(b)) => Some(format!("before={} after={} eq={}", a.is_before(b.clone()), a.is_after(b.clone()), a == b)),
      (Handle::H(a), Handle::H(b)) => Some(format!("before={} after={} eq={}", a.is_before(b.clone()), a.is_after(b.clone()), a == b)),
      (Handle::CD(a), Handle::CD(b)) => Some(format!("eq={}", a == b)),
      (Handle::CH(a), Handle::CH(b)) => Some(format!("eq={}", a == b)),
      (Handle::W(a), Handle::W(b)) => Some(format!("eq={}", a == b)),
      (Handle::T(a), Handle::T(b)) => Some(format!("eq={}", a == b)),
      (Handle::EC(a, _), Handle::EC(b, _)) => Some(format!("eq={}", a == b)),
      (Handle::CL(a), Handle::CL(b)) => Some(format!("eq={}", a == b)),
      (Handle::DF(a), Handle::DF(b)) => Some(format!("eq={}", a == b)),
      (Handle::FT(a), Handle::FT(b)) => Some(format!("eq={}", a == b)),
      (Handle::CM(a), Handle::CM(b)) => Some(format!("eq={}", a == b)),
      (Handle::LF(a), Handle::LF(b)) => Some(format!("eq={}", a == b)),
      _ => None,
    }
  }

  /// The k-th double-hour listed by a day (lunar or sixty-cycle).
  pub fn hour(&self, k: usize) -> Result<Handle, String> {
    match self {
      Handle::D(d) => {
        let mut hours = d.get_hours();
        if k >= hours.len() {
          return Err("no such hour".to_string());
        }
        Ok(Handle::H(hours.swap_remove(k)))
      }
      Handle::CD(d) => {
        let mut hours = d.get_hours();
        if k >= hours.len() {
          return Err("no such hour".to_string());
        }
        Ok(Handle::CH(hours.swap_remove(k)))
      }
      _ => Err("not a day".to_string()),
    }
  }
}
