//! Seeded workload generation (swarm style): every run draws its own size, thread count,
//! scheduling policy, query families, fault mix, era and focus set from its seed.

use crate::query::*;
use crate::rng::Rng;
use crate::sched::Policy;
use crate::script::{Op, RunScript, SLOTS};

/// Lunar-style tuple; solar queries use (y, |m|, d, ...).
#[derive(Clone, Copy, Debug)]
pub struct Tup {
  pub y: i64,
  pub m: i64,
  pub d: i64,
  pub h: i64,
  pub mi: i64,
  pub s: i64,
}

pub struct Leap {
  /// leap month of lunar year y at index y+1 (0 = none)
  pub table: Vec<i64>,
}

impl Leap {
  /// Built from the library itself (LunarYear::get_leap_month), before any simulation starts.
  /// Only used to make *valid* leap months frequent in the workload; scripts are recorded
  /// explicitly, so nothing depends on this table being right.
  pub fn build() -> Self {
    let mut table = Vec::with_capacity(10001);
    for y in -1..=9999i64 {
      let lm = std::panic::catch_unwind(|| tyme4rs::tyme::lunar::LunarYear::from_year(y as isize).get_leap_month() as i64).unwrap_or(0);
      table.push(lm);
    }
    Self { table }
  }

  pub fn of(&self, y: i64) -> i64 {
    if y < -1 || y > 9999 {
      0
    } else {
      self.table[(y + 1) as usize]
    }
  }
}

/// Every date that has an entry in the legal-holiday table (found by asking the library for every
/// day of 2000..2027 before any simulation starts; like `Leap`, only used to aim the workload:
/// scripts are recorded explicitly). The table is finite: walks from its first and last entries
/// run off its ends.
static HOLIDAYS: std::sync::OnceLock<Vec<(i64, i64, i64)>> = std::sync::OnceLock::new();

pub fn build_holidays() {
  HOLIDAYS.get_or_init(|| {
    let mut v = Vec::new();
    for y in 2000..=2027i64 {
      for m in 1..=12i64 {
        for d in 1..=31i64 {
          let found = std::panic::catch_unwind(|| tyme4rs::tyme::holiday::LegalHoliday::from_ymd(y as isize, m as usize, d as usize).is_some()).unwrap_or(false);
          if found {
            v.push((y, m, d));
          }
        }
      }
    }
    v
  });
}

fn holidays() -> &'static [(i64, i64, i64)] {
  HOLIDAYS.get().map(|v| v.as_slice()).unwrap_or(&[])
}

#[derive(Clone, Debug)]
pub struct Swarm {
  pub threads: usize,
  pub ops_per_thread: usize,
  pub policy: Policy,
  pub pool_pct: u64,
  pub reask_pct: u64,
  pub twin_pct: u64,
  pub handle_pct: u64,
  pub fam: [bool; 10],
  pub fault_num: u64,
  pub fault_den: u64,
  pub era: u64,
  pub focus: Vec<Tup>,
  pub heavy_ok: bool,
  /// fault-free configuration: the generator avoids requests it expects to be refused
  pub allow_invalid: bool,
}

pub const ERA_NAMES: [&str; 6] = ["-1..30", "1..999", "1900..2100", "9980..9999", "0..9999", "mixed"];

fn year_in_era(rng: &mut Rng, era: u64) -> i64 {
  match era {
    0 => rng.range(-1, 30),
    1 => rng.range(1, 999),
    2 => rng.range(1900, 2100),
    3 => rng.range(9980, 9999),
    4 => rng.range(0, 9999),
    _ => {
      let e = *rng.pick(&[0u64, 1, 2, 2, 3, 4, 4]);
      year_in_era(rng, e)
    }
  }
}

const EDGE_TUPLES: &[(i64, i64, i64)] = &[
  (1, 1, 1), (0, 11, 18), (0, 11, 17), (0, 12, 1), (9999, 12, 2), (9999, 12, 1), (9999, 11, 30), (1582, 9, 18), (1582, 9, 19), (1582, 10, 4),
  (2033, -11, 1), (2033, 11, 1), (2034, 1, 1), (239, 12, 1), (240, 1, 1), (9, 1, 1), (23, 12, 1), (24, 1, 1), (8, 12, 1), (-1, 12, 1), (-1, 11, 1),
  (1, 12, 1), (11, 2, 1), (202, 11, 19), (2021, 1, 18), (2020, -4, 1), (2020, 4, 1), (2023, -2, 1), (2023, 2, 30), (9998, 12, 29), (1, 1, 28),
];

fn looks_valid(t: &Tup, leap: &Leap) -> bool {
  t.y >= 1 && t.y <= 9998 && t.m != 0 && t.m.abs() <= 12 && (t.m > 0 || leap.of(t.y) == -t.m) && t.d >= 1 && t.d <= 29
}

pub fn gen_tuple(rng: &mut Rng, era: u64, leap: &Leap, allow_invalid: bool) -> Tup {
  if rng.chance(1, 8) {
    for _ in 0..8 {
      let e = rng.pick(EDGE_TUPLES);
      let t = Tup { y: e.0, m: e.1, d: e.2, h: *rng.pick(&[0i64, 0, 12, 23]), mi: 0, s: 0 };
      if allow_invalid || (looks_valid(&t, leap) && t.y > 1) {
        return t;
      }
    }
  }
  let y = year_in_era(rng, era);
  let mut m = rng.range(1, 12);
  if rng.chance(1, 5) {
    let lm = leap.of(y);
    if lm > 0 {
      m = -lm;
    } else if allow_invalid && rng.chance(1, 4) {
      m = -m;
    }
  }
  let y = if allow_invalid { y } else { y.max(2).min(9988) };
  let d = if allow_invalid && rng.chance(1, 10) { 30 } else { rng.range(1, 29) };
  let h = if rng.chance(1, 4) { *rng.pick(&[0i64, 23, 22, 1]) } else { rng.range(0, 23) };
  let (mi, s) = if rng.chance(1, 2) { (0, 0) } else { (rng.range(0, 59), rng.range(0, 59)) };
  Tup { y, m, d, h, mi, s }
}

/// A tuple under which a plausible (broken) memo key collides with that of `t`.
pub fn twin(rng: &mut Rng, t: Tup, leap: &Leap, allow_invalid: bool) -> Tup {
  if allow_invalid {
    return twin_any(rng, t);
  }
  for _ in 0..6 {
    let r = twin_any(rng, t);
    if looks_valid(&r, leap) {
      return r;
    }
  }
  // same month and day in a neighbouring year is always a usable neighbour
  let mut r = t;
  r.y = (t.y + 1).min(9988);
  if r.m < 0 {
    r.m = -r.m;
  }
  r
}

fn twin_any(rng: &mut Rng, t: Tup) -> Tup {
  let mut r = t;
  match rng.below(11) {
    0 | 1 | 2 => {
      // digit re-split with equal decimal concatenation of year and month
      let s = format!("{}{}", t.y, t.m);
      let bytes = s.as_bytes();
      let mut cands: Vec<(i64, i64)> = Vec::new();
      for p in 1..bytes.len() {
        let (a, b) = s.split_at(p);
        if a == "-" || b == "-" || b.starts_with('0') || (b.starts_with('-') && b.len() > 1 && b.as_bytes()[1] == b'0') {
          continue;
        }
        if let (Ok(y), Ok(m)) = (a.parse::<i64>(), b.parse::<i64>()) {
          if (y, m) != (t.y, t.m) && m.abs() <= 9999 {
            cands.push((y, m));
          }
        }
      }
      // prefer candidates that are themselves valid-looking months
      let good: Vec<(i64, i64)> = cands.iter().cloned().filter(|c| c.1 != 0 && c.1.abs() <= 12).collect();
      if !good.is_empty() {
        let c = *rng.pick(&good);
        r.y = c.0;
        r.m = c.1;
      } else if !cands.is_empty() {
        let c = *rng.pick(&cands);
        r.y = c.0;
        r.m = c.1;
      } else {
        // no re-split exists: build one from the other direction (y*10+first digit of m)
        if t.m >= 10 {
          r.y = t.y * 10 + 1;
          r.m = t.m - 10;
        } else if t.y >= 10 && t.y % 10 == 1 && t.m >= 0 && t.m <= 2 {
          r.y = t.y / 10;
          r.m = 10 + t.m;
        } else {
          r.m = -t.m;
        }
      }
    }
    3 => r.m = -t.m,
    4 => {
      // year*12+month aliasing
      let k = if rng.chance(1, 2) { 1 } else { -1 };
      r.y = t.y + k;
      r.m = t.m - 12 * k;
    }
    5 => {
      let delta = *rng.pick(&[1i64, -1, 60, -60, 256, -256, 65536, -65536, 10000, -10000]);
      r.y = t.y + delta;
    }
    6 => {
      let delta = *rng.pick(&[12i64, -12, 16, -16, 256, -256, 24, -24]);
      r.m = t.m + delta;
    }
    7 => r.y = -t.y,
    8 => {
      if t.d >= 1 && t.d <= 12 && t.m >= 1 {
        r.m = t.d;
        r.d = t.m;
      } else {
        r.y = t.y + 1;
      }
    }
    9 => {
      // same year, another month or day (a memo keyed by too little of its argument)
      if rng.chance(1, 2) {
        r.m = rng.range(1, 12);
      } else {
        r.d = rng.range(1, 29);
      }
    }
    _ => {
      let delta = *rng.pick(&[1i64, -1, 19, -19, 60, -60, 1000, -1000]);
      r.y = t.y + delta;
    }
  }
  r
}

/// A query of the same kind whose arguments collide with those of `q` under a plausible broken
/// key function over *any* pair of adjacent arguments: undelimited decimal concatenation,
/// `a*K + b` packing, absolute values, swapped or shifted arguments. Generic over all kinds.
pub fn sibling(rng: &mut Rng, q: &Query) -> Query {
  let mut a = q.args.clone();
  if a.is_empty() {
    return q.clone();
  }
  let i = rng.below(a.len() as u64) as usize;
  let j = if i + 1 < a.len() { i + 1 } else { i };
  match rng.below(8) {
    0 | 1 if j != i => {
      // digit re-split of a[i] ++ a[j]
      let s = format!("{}{}", a[i], a[j]);
      let mut cands: Vec<(i64, i64)> = Vec::new();
      for p in 1..s.len() {
        let (x, y) = s.split_at(p);
        if x == "-" || y == "-" || y.starts_with('0') || y.starts_with("-0") {
          continue;
        }
        if let (Ok(x), Ok(y)) = (x.parse::<i64>(), y.parse::<i64>()) {
          if (x, y) != (a[i], a[j]) {
            cands.push((x, y));
          }
        }
      }
      if !cands.is_empty() {
        let c = *rng.pick(&cands);
        a[i] = c.0;
        a[j] = c.1;
      } else {
        a[i] += 1;
      }
    }
    2 if j != i => {
      // a*K + b packing
      let k = *rng.pick(&[12i64, 13, 24, 25, 31, 60, 100]);
      let d = if rng.chance(1, 2) { 1 } else { -1 };
      a[i] += d;
      a[j] -= d * k;
    }
    3 => a[i] = -a[i],
    4 if j != i => a.swap(i, j),
    5 => a[i] += *rng.pick(&[1i64, -1, 2, -2]),
    6 => a[i] += *rng.pick(&[12i64, -12, 24, -24, 60, -60, 256, -256]),
    // large offsets (truncated or modular keys) only on the first two arguments (year, month):
    // later arguments are often step counts, and a step count of 2^32 is a legitimate request
    // that simply takes hours to be refused
    _ if i < 2 => a[i] = a[i].wrapping_add(*rng.pick(&[65536i64, 10000, -10000, 1 << 32])),
    _ => a[i] += *rng.pick(&[1i64, -1, 7, -7]),
  }
  // the same guard for swapped / re-split arguments that landed in a step-count position
  for k in 2..a.len() {
    if a[k].abs() > 100_000 {
      a[k] %= 1000;
    }
  }
  Query::new(q.kind, a)
}

/// A request that must be refused, derived from a valid-looking tuple. Returns the tuple and
/// the fault kind (1 = by Err before any lock, 2 = by panic outside a lock, 3 = inside the
/// month memo's critical section).
pub fn corrupt(rng: &mut Rng, t: Tup, leap: &Leap) -> (Tup, u8) {
  let mut r = t;
  match rng.below(9) {
    0 => {
      r.m = *rng.pick(&[0i64, 13, -13, 14, 100]);
      (r, 3)
    }
    1 => {
      // leap sign on a month that is not the leap month of that year
      let lm = leap.of(t.y);
      let mut m = t.m.abs().max(1).min(12);
      if m == lm {
        m = m % 12 + 1;
      }
      r.m = -m;
      (r, 3)
    }
    2 => {
      r.y = *rng.pick(&[-2i64, 10000, -3, 10001, 12000]);
      (r, 3)
    }
    3 | 4 => {
      r.d = *rng.pick(&[0i64, 31, 32, 40]);
      (r, 2)
    }
    5 => {
      r.h = *rng.pick(&[24i64, 25, 99]);
      (r, 1)
    }
    6 => {
      r.mi = 60;
      (r, 1)
    }
    7 => {
      r.d = 30; // refused only in a 29-day month: a refusal whose validity depends on the month record
      (r, 2)
    }
    _ => {
      r.s = 60;
      (r, 1)
    }
  }
}

fn small_n(rng: &mut Rng) -> i64 {
  match rng.below(6) {
    0 => 0,
    1 => 1,
    2 => -1,
    3 => rng.range(-3, 3),
    4 => rng.range(-40, 40),
    _ => rng.range(-400, 400),
  }
}

/// Arguments for query kind `kind` derived from tuple `t`.
pub fn args_for(rng: &mut Rng, kind: usize, t: Tup, other: Tup) -> Vec<i64> {
  let am = t.m.abs().max(1);
  match KINDS[kind].name {
    "LM.from_ym" | "LM.new" | "LM.days" | "LM.misc" => vec![t.y, t.m],
    "LM.next" => vec![t.y, t.m, rng.range(-14, 14)],
    "LM.weeks" => vec![t.y, t.m, rng.range(0, 6)],
    "LY.months" | "LY.misc" | "SY.misc" | "SCY.months" => vec![t.y],
    "LW.from_ym" => vec![t.y, t.m, rng.range(0, 5), rng.range(0, 6)],
    "LW.next" => vec![t.y, t.m, rng.range(0, 4), rng.range(0, 6), rng.range(-6, 6)],
    "LD.new" => vec![t.y, t.m, t.d],
    "LD.get" => {
      if rng.chance(1, 8) {
        // the festival getter on a festival date, sometimes in the leap twin of that month
        let e = *rng.pick(FESTIVAL_DATES);
        vec![t.y, if t.m < 0 { -e.0 } else { e.0 }, e.1, 6]
      } else {
        vec![t.y, t.m, t.d, rng.below(LD_GETTERS as u64) as i64]
      }
    }
    "LD.next" | "LD.step" => vec![t.y, t.m, t.d, small_n(rng)],
    "LD.hour" => vec![t.y, t.m, t.d, rng.range(0, 12)],
    "EC.mk" => vec![rng.range(0, 59), rng.range(0, 59), rng.range(0, 59), rng.range(0, 59), t.y],
    "EC.get" => vec![rng.range(0, 59), rng.range(0, 59), rng.range(0, 59), rng.range(0, 59), t.y, rng.range(0, 65)],
    "EC.cmp" => vec![rng.range(0, 59), rng.range(0, 59), rng.range(0, 59), rng.range(0, 59), t.y, rng.range(0, 59), rng.range(0, 59), rng.range(0, 59), rng.range(0, 59), other.y],
    "CLH.new" => vec![t.y, am, t.d.min(28).max(1), t.h, t.mi, t.s, rng.range(0, 1)],
    "CLH.get" => vec![t.y, am, t.d.min(28).max(1), t.h, t.mi, t.s, rng.range(0, 1), rng.range(0, 5)],
    "CLH.cmp" => vec![t.y, am, t.d.min(28).max(1), t.h, t.mi, t.s, rng.range(0, 1), other.y, other.m.abs().max(1), other.d.min(28).max(1), other.h, other.mi, other.s, rng.range(0, 1)],
    "DF.new" | "FT.new" => vec![t.y, am, t.d.min(28).max(1), t.h, t.mi, t.s, rng.range(0, 1), rng.range(-1, 9)],
    "DF.get" | "FT.get" => vec![t.y, am, t.d.min(28).max(1), t.h, t.mi, t.s, rng.range(0, 1), rng.range(-1, 9), rng.range(0, 5)],
    "DF.step" | "FT.step" => vec![t.y, am, t.d.min(28).max(1), t.h, t.mi, t.s, rng.range(0, 1), rng.range(-1, 9), rng.range(-3, 6)],
    "DF.cmp" | "FT.cmp" => vec![t.y, am, t.d.min(28).max(1), t.h, t.mi, t.s, rng.range(0, 1), rng.range(0, 3), t.y, am, t.d.min(28).max(1), t.h, t.mi, t.s, rng.range(0, 1), rng.range(0, 3)],
    "SCM.new" => vec![t.y, rng.range(-2, 14)],
    "SCM.get" => vec![t.y, rng.range(0, 11), rng.range(0, 5)],
    "SCM.step" => vec![t.y, rng.range(0, 11), rng.range(-14, 14)],
    "SCM.cmp" => vec![t.y, rng.range(0, 11), other.y, rng.range(0, 11)],
    "LF.new" => vec![t.y, rng.range(0, 13)],
    "LF.get" => vec![t.y, rng.range(0, 12), rng.range(0, 2)],
    "LF.step" => vec![t.y, rng.range(0, 12), rng.range(-15, 15)],
    "LF.cmp" => vec![t.y, rng.range(0, 12), other.y, rng.range(0, 12)],
    "LD.cmp" => vec![t.y, t.m, t.d, other.y, other.m, other.d],
    "LH.cmp" => vec![t.y, t.m, t.d, t.h, t.mi, t.s, other.y, other.m, other.d, other.h, other.mi, other.s],
    "SCD.cmp" => vec![t.y, am, t.d.min(28).max(1), other.y, other.m.abs().max(1), other.d.min(28).max(1)],
    "SCH.cmp" => vec![t.y, am, t.d.min(28).max(1), t.h, t.mi, t.s, other.y, other.m.abs().max(1), other.d.min(28).max(1), other.h, other.mi, other.s],
    "LW.cmp" => vec![t.y, t.m, rng.range(0, 4), rng.range(0, 6), other.y, other.m, rng.range(0, 4), rng.range(0, 6)],
    "TERM.cmp" => vec![t.y, rng.range(0, 23), other.y, rng.range(0, 23)],
    "SCD.new" => vec![t.y, am, t.d.min(28).max(1)],
    "SCH.new" => vec![t.y, am, t.d.min(28).max(1), t.h, t.mi, t.s],
    "LW.new" => vec![t.y, t.m, rng.range(0, 5), rng.range(0, 6)],
    "TERM.new" => vec![t.y, rng.range(-3, 27)],
    "SCD.get" => vec![t.y, am, t.d.min(28).max(1), rng.below(crate::handles::HGETTERS[2] as u64) as i64],
    "SCH.get" => vec![t.y, am, t.d.min(28).max(1), t.h, t.mi, t.s, rng.below(crate::handles::HGETTERS[3] as u64) as i64],
    "LW.get" => vec![t.y, t.m, rng.range(0, 4), rng.range(0, 6), rng.below(crate::handles::HGETTERS[4] as u64) as i64],
    "TERM.get" => vec![t.y, rng.range(0, 23), rng.below(crate::handles::HGETTERS[5] as u64) as i64],
    "LW.step" => vec![t.y, t.m, rng.range(0, 4), rng.range(0, 6), rng.range(-6, 6)],
    "SCD.hour" => vec![t.y, am, t.d.min(28).max(1), rng.range(0, 11)],
    "LH.new" => vec![t.y, t.m, t.d, t.h, t.mi, t.s],
    "LH.get" => vec![t.y, t.m, t.d, t.h, t.mi, t.s, rng.below(LH_GETTERS as u64) as i64],
    "LH.next" | "LH.step" => vec![t.y, t.m, t.d, t.h, t.mi, t.s, rng.range(-30, 30)],
    "SD.new" => vec![t.y, am, t.d],
    "SD.get" => vec![t.y, am, t.d.min(28).max(1), rng.below(SD_GETTERS as u64) as i64],
    "SD.next" | "SCD.next" => vec![t.y, am, t.d.min(28).max(1), small_n(rng)],
    "SD.sub" => vec![t.y, am, t.d.min(28).max(1), other.y, other.m.abs().max(1), other.d.min(28).max(1)],
    "ST.get" => vec![t.y, am, t.d.min(28).max(1), t.h, t.mi, t.s, rng.below(ST_GETTERS as u64) as i64],
    "ST.next" => vec![t.y, am, t.d.min(28).max(1), t.h, t.mi, t.s, *rng.pick(&[1i64, -1, 3600, -3600, 86400, -86400, 100000, -100000])],
    "SCH.next" => vec![t.y, am, t.d.min(28).max(1), t.h, t.mi, t.s, rng.range(-13, 13)],
    "SM.misc" => vec![t.y, am, rng.range(0, 6)],
    "SCM.first" | "SCM.days" => vec![t.y, rng.range(-2, 14)],
    "LF.idx" => vec![t.y, rng.range(0, 13)],
    "LF.ymd" => {
      if rng.chance(2, 3) {
        let e = *rng.pick(FESTIVAL_DATES);
        // the leap twin of a festival month as well (refused unless that year has this leap month)
        vec![t.y, if t.m < 0 || rng.chance(1, 6) { -e.0 } else { e.0 }, e.1]
      } else {
        vec![t.y, t.m, t.d]
      }
    }
    "LF.next" => vec![t.y, rng.range(0, 12), rng.range(-15, 15)],
    "SF.idx" => vec![t.y, rng.range(0, 10)],
    "HOL.ymd" => {
      // mostly dates that are in the holiday table (so that the answer is not trivially None)
      let y = if rng.chance(2, 3) { rng.range(2001, 2026) } else { t.y };
      if !holidays().is_empty() && rng.chance(1, 3) {
        let e = *rng.pick(holidays());
        vec![e.0, e.1, e.2]
      } else if rng.chance(2, 3) {
        let e = *rng.pick(&[(1i64, 1i64), (5, 1), (10, 1), (10, 2), (10, 3), (5, 2), (1, 2), (4, 5), (10, 5), (10, 7), (5, 3)]);
        vec![y, e.0, e.1]
      } else {
        vec![y, am, t.d.min(28).max(1)]
      }
    }
    "SF.ymd" => vec![t.y, am, t.d.min(28).max(1)],
    "HOL.next" => {
      let hs = holidays();
      if hs.is_empty() || rng.chance(1, 8) {
        vec![rng.range(2002, 2025), *rng.pick(&[1i64, 5, 10]), *rng.pick(&[1i64, 2, 3]), rng.range(-5, 5)]
      } else {
        // entries of the table, the first and the last ones often; steps that stay inside a year,
        // cross into the neighbouring years, and run off either end of the table
        let edge = (hs.len() as u64).min(40);
        let e = match rng.below(4) {
          0 => hs[rng.below(edge) as usize],
          1 => hs[hs.len() - 1 - rng.below(edge) as usize],
          _ => *rng.pick(hs),
        };
        let n = match rng.below(4) {
          0 => small_n(rng),
          1 => rng.range(-3, 3),
          2 => *rng.pick(&[30i64, -30, 45, -45, 400, -400, 1000, -1000]),
          _ => rng.range(-14, 14),
        };
        vec![e.0, e.1, e.2, n]
      }
    }
    "EC.times" => {
      let a = t.y - rng.range(0, 70);
      vec![t.y, am, t.d.min(28).max(1), t.h, t.mi, t.s, a, a + rng.range(0, 130)]
    }
    "CL" => vec![t.y, am, t.d.min(28).max(1), t.h, t.mi, t.s, rng.range(0, 1)],
    "CL.fortune" => vec![t.y, am, t.d.min(28).max(1), t.h, t.mi, t.s, rng.range(0, 1), rng.range(-2, 12)],
    "TERM" => vec![t.y, rng.range(-3, 27)],
    "TERM.next" => vec![t.y, rng.range(0, 23), rng.range(-50, 50)],
    "JD" => vec![rng.range(1721424, 5373484), rng.range(0, 999)],
    "CYCLE" => vec![rng.range(0, 7), rng.range(-70, 200)],
    "SW" => vec![t.y, am, rng.range(0, 5), rng.range(0, 6)],
    "SW.next" => vec![t.y, am, rng.range(0, 3), rng.range(0, 6), rng.range(-60, 60)],
    "SM.days" => vec![t.y, am, rng.range(-14, 14)],
    "SS" => vec![t.y, rng.range(0, 3), rng.range(-9, 9)],
    "TABOO" | "TABOO.hour" => vec![rng.range(0, 59), rng.range(0, 59)],
    "PROVIDER" => vec![rng.range(0, 3), t.y, am, t.d.min(28).max(1), t.h, t.mi, t.s, rng.range(0, 1)],
    "STAR" => vec![rng.range(0, 4), if rng.chance(1, 2) { t.y } else { rng.range(-30, 90) }],
    "NAME" => vec![rng.range(0, NAME_TYPES.len() as i64 - 1), rng.range(0, 12), *rng.pick(&[0i64, 0, 2, 2, 2, 1, 3]), rng.range(0, NAME_TYPES.len() as i64 - 1)],
    "NAME2" => vec![rng.range(0, 3), rng.range(0, 70), *rng.pick(&[0i64, 0, 0, 1, 2, 3]), t.y],
    other => panic!("args_for: unknown kind {}", other),
  }
}

const FESTIVAL_DATES: &[(i64, i64)] = &[(1, 1), (1, 15), (2, 2), (3, 3), (5, 5), (7, 7), (7, 15), (8, 15), (9, 9), (12, 8), (12, 29), (12, 30)];

pub fn draw_swarm(rng: &mut Rng, leap: &Leap, concurrency_bias: u64) -> Swarm {
  let threads = if rng.below(100) < concurrency_bias { *rng.pick(&[2usize, 2, 3, 3, 4, 4, 8, 16]) } else { *rng.pick(&[1usize, 1, 1, 2, 2, 3]) };
  let mut ops = match rng.below(4) {
    0 => rng.range(2, 3) as usize,
    1 => rng.range(2, 8) as usize,
    _ => rng.range(2, 24) as usize,
  };
  if threads >= 8 {
    ops = ops.min(10);
  }
  let policy = if threads == 1 {
    Policy::Seq
  } else {
    match rng.below(12) {
      0 | 1 | 2 => Policy::Seq,
      3 => Policy::RoundRobin,
      4 | 5 | 6 => Policy::RandomWalk,
      7 => Policy::Pct(1),
      8 => Policy::Pct(2),
      9 => Policy::Pct(3),
      _ => Policy::Park,
    }
  };
  let mut fam = [false; 10];
  let mut any = false;
  for (k, f) in fam.iter_mut().enumerate() {
    let p = match k {
      FAM_LM => 80,
      FAM_LD | FAM_SD => 60,
      FAM_EC => 35,
      FAM_FE => 30,
      _ => 45,
    };
    *f = rng.below(100) < p;
    any |= *f;
  }
  if !any {
    fam[FAM_LM] = true;
    fam[FAM_SD] = true;
  }
  let (fault_num, fault_den) = *rng.pick(&[(0u64, 1u64), (0, 1), (1, 20), (1, 8), (1, 3)]);
  let era = rng.below(6);
  let allow_invalid = fault_num > 0;
  let nfocus = rng.range(1, 6) as usize;
  let mut focus = Vec::new();
  for _ in 0..nfocus {
    focus.push(gen_tuple(rng, era, leap, allow_invalid));
  }
  Swarm {
    threads,
    ops_per_thread: ops,
    policy,
    pool_pct: *rng.pick(&[0u64, 20, 40, 60]),
    reask_pct: *rng.pick(&[10u64, 25, 40]),
    twin_pct: *rng.pick(&[0u64, 20, 33, 60]),
    handle_pct: *rng.pick(&[0u64, 10, 25]),
    fam,
    fault_num,
    fault_den,
    era,
    focus,
    heavy_ok: rng.chance(1, 3),
    allow_invalid,
  }
}

fn pick_kind(rng: &mut Rng, sw: &Swarm) -> usize {
  for _ in 0..64 {
    let k = rng.below(KINDS.len() as u64) as usize;
    let d = &KINDS[k];
    if !sw.fam[d.family] {
      continue;
    }
    if d.cost == 2 && !(sw.heavy_ok && rng.chance(1, 4)) {
      continue;
    }
    if d.cost == 1 && rng.chance(1, 3) {
      continue;
    }
    return k;
  }
  K_LM_FROM_YM
}

/// Kinds through which an invalid tuple reaches the month memo (or an outer check) as a refusal.
pub fn fault_kind(rng: &mut Rng, class: u8) -> usize {
  let names: &[&str] = match class {
    3 => &["LM.from_ym", "LM.from_ym", "LD.new", "LD.get", "LH.get", "LW.from_ym", "LF.ymd", "LM.days", "LM.next", "LH.new"],
    2 => &["LD.new", "LD.get", "LH.get", "LD.next", "SD.new", "LF.ymd"],
    _ => &["LH.new", "LH.get", "ST.get", "LH.next"],
  };
  kind_by_name(*rng.pick(names)).unwrap()
}

/// A request whose computation panics inside one of the two provider critical sections
/// (class 4: eight-char provider, class 5: child-limit provider). These are valid or
/// range-edge public calls: instants in the first days of AD 1, child limits ending after 9999.
pub fn provider_fault(rng: &mut Rng) -> (Query, u8) {
  if rng.chance(1, 2) {
    let d = rng.range(1, 4);
    let (h, mi, s) = (rng.range(0, 23), *rng.pick(&[0i64, 30]), 0);
    match rng.below(4) {
      0 => (Query::new(kind_by_name("ST.get").unwrap(), vec![1, 1, d, h, mi, s, *rng.pick(&[4i64, 4, 7])]), 4),
      1 => (Query::new(kind_by_name("CL").unwrap(), vec![1, 1, d, h, mi, s, rng.range(0, 1)]), 4),
      2 => (Query::new(kind_by_name("EC.times").unwrap(), vec![1, 1, d, h, mi, s, 1, 60]), 4),
      _ => (Query::new(kind_by_name("LH.get").unwrap(), vec![0, 11, 17 + d, h, mi, s, 3]), 4),
    }
  } else {
    let y = rng.range(9990, 9999);
    let g = rng.range(0, 1);
    if rng.chance(1, 3) {
      (Query::new(kind_by_name("CL.fortune").unwrap(), vec![y, rng.range(1, 12), rng.range(1, 28), rng.range(0, 23), 0, 0, g, rng.range(0, 3)]), 5)
    } else {
      (Query::new(kind_by_name("CL").unwrap(), vec![y, rng.range(1, 12), rng.range(1, 28), rng.range(0, 23), 0, 0, g]), 5)
    }
  }
}

pub struct GenStats {
  pub faults_by_class: [u64; 6],
  pub twins: u64,
  pub reasks: u64,
  pub pool_ops: u64,
  pub handle_ops: u64,
  pub sandwiches: u64,
}

pub fn gen_pool(seed: u64, n: usize, leap: &Leap) -> Vec<Query> {
  let mut rng = Rng::new(crate::rng::mix(seed, 0x706f6f6c));
  let mut fam = [true; 10];
  fam[FAM_EC] = true;
  let sw = Swarm { threads: 1, ops_per_thread: 0, policy: Policy::Seq, pool_pct: 0, reask_pct: 0, twin_pct: 0, handle_pct: 0, fam, fault_num: 0, fault_den: 1, era: 5, focus: Vec::new(), heavy_ok: true, allow_invalid: true };
  let mut pool = Vec::with_capacity(n);
  let mut base: Vec<Tup> = Vec::new();
  while pool.len() < n {
    // clusters: a few queries around the same tuple and its twins
    let inv = rng.chance(1, 4);
    let t = if !base.is_empty() && rng.chance(1, 3) {
      let b = *rng.pick(&base);
      twin(&mut rng, b, leap, inv)
    } else {
      gen_tuple(&mut rng, 5, leap, inv)
    };
    base.push(t);
    let other = gen_tuple(&mut rng, 5, leap, false);
    let k = if rng.chance(1, 3) { K_LM_FROM_YM } else { pick_kind(&mut rng, &sw) };
    let q = Query::new(k, args_for(&mut rng, k, t, other));
    // colliding partners of the same kind: every worker evaluates both, in its own order, so a
    // first-writer-wins memo hidden anywhere in the library answers differently across processes
    if rng.chance(1, 2) && pool.len() + 1 < n {
      pool.push(sibling(&mut rng, &q));
    }
    if rng.chance(1, 4) && pool.len() + 1 < n && KINDS[k].arity >= 2 {
      // same arguments in another year (a memo keyed without the year)
      let mut a = q.args.clone();
      a[0] = year_in_era(&mut rng, 5);
      pool.push(Query::new(k, a));
    }
    pool.push(q);
  }
  pool
}

/// Generate the script of one run.
pub fn gen_run(rng: &mut Rng, sw: &Swarm, pool: &[Query], leap: &Leap, reset: bool, gs: &mut GenStats) -> RunScript {
  if matches!(sw.policy, Policy::Park) && rng.chance(1, 2) {
    return gen_lap_run(rng, sw, leap, reset);
  }
  let mut threads: Vec<Vec<Op>> = vec![Vec::new(); sw.threads];
  let mut recent: Vec<Query> = Vec::new();
  let mut recent_tuples: Vec<Tup> = sw.focus.clone();
  let mut any_fault = false;
  // interleave generation across threads so that `recent` is shared in a mixed order
  let total = sw.threads * sw.ops_per_thread;
  let mut slots_used: Vec<[bool; SLOTS]> = vec![[false; SLOTS]; sw.threads];
  // what the generator believes each slot holds (index into handles::HKINDS)
  let mut slot_kind: Vec<[usize; SLOTS]> = vec![[0; SLOTS]; sw.threads];
  let zero = Tup { y: 0, m: 1, d: 1, h: 0, mi: 0, s: 0 };
  let mut slot_tup: Vec<[Tup; SLOTS]> = vec![[zero; SLOTS]; sw.threads];
  let mut emitted = 0usize;
  let mut guard = 0usize;
  while emitted < total && guard < total * 8 {
    guard += 1;
    let t = rng.below(sw.threads as u64) as usize;
    if threads[t].len() >= sw.ops_per_thread {
      continue;
    }
    // handle ops: values kept in slots, queried, stepped, cloned, derived from one another
    let hkinds: Vec<usize> = [(0usize, FAM_LD), (1, FAM_LH), (2, FAM_SC), (3, FAM_SC), (4, FAM_LW), (5, FAM_SD), (6, FAM_EC), (7, FAM_EC), (8, FAM_EC), (9, FAM_EC), (10, FAM_SC), (11, FAM_FE)].iter().filter(|(_, f)| sw.fam[*f]).map(|(k, _)| *k).collect();
    if !hkinds.is_empty() && rng.below(100) < sw.handle_pct {
      let used = slots_used[t];
      let filled: Vec<usize> = (0..SLOTS).filter(|s| used[*s]).collect();
      // pattern: a value and its leap twin (same year, month and -month), some getters on both
      // (filling whatever they memoise), then compared both ways
      if (sw.fam[FAM_LD] || sw.fam[FAM_LH]) && rng.chance(1, 8) && threads[t].len() + 6 <= sw.ops_per_thread {
        let f = *rng.pick(&recent_tuples);
        let mut y = f.y.max(1).min(9990);
        let mut l = 0;
        for k in 0..5 {
          if leap.of(y + k) > 0 {
            y += k;
            l = leap.of(y);
            break;
          }
        }
        if l > 0 {
          let kind = if sw.fam[FAM_LH] && (!sw.fam[FAM_LD] || rng.chance(1, 3)) { 1 } else { 0 };
          let (sa, sb) = (rng.below(SLOTS as u64) as usize, rng.below(SLOTS as u64) as usize);
          if sa != sb {
            let d1 = rng.range(1, 29);
            let d2 = if rng.chance(1, 2) { d1 } else { rng.range(1, 29) };
            let mk = |m: i64, d: i64| -> Vec<i64> {
              if kind == 1 {
                vec![y, m, d, f.h, f.mi, f.s]
              } else {
                vec![y, m, d]
              }
            };
            let ng = crate::handles::HGETTERS[kind] as u64;
            let seq = vec![
              Op::HNew { slot: sa, kind, args: mk(-l, d1) },
              Op::HNew { slot: sb, kind, args: mk(l, d2) },
              Op::HGet { slot: sa, g: rng.below(ng) as i64 },
              Op::HGet { slot: sb, g: rng.below(ng) as i64 },
              Op::HCmp { a: sa, b: sb },
              Op::HCmp { a: sb, b: sa },
            ];
            for (s_, k_) in [(sa, kind), (sb, kind)] {
              slots_used[t][s_] = true;
              slot_kind[t][s_] = k_;
            }
            slot_tup[t][sa] = Tup { y, m: -l, d: d1, ..f };
            slot_tup[t][sb] = Tup { y, m: l, d: d2, ..f };
            for op in seq {
              threads[t].push(op);
              gs.handle_ops += 1;
              emitted += 1;
            }
            continue;
          }
        }
      }
      // pattern: a value, a getter on it (filling whatever it memoises), a value derived from it,
      // getters on the derived value
      if rng.chance(1, 8) && threads[t].len() + 5 <= sw.ops_per_thread {
        let f = *rng.pick(&recent_tuples);
        let (sa, sb) = (rng.below(SLOTS as u64) as usize, rng.below(SLOTS as u64) as usize);
        let cands: Vec<usize> = hkinds.iter().cloned().filter(|k| [0usize, 1, 2, 4].contains(k)).collect();
        if sa != sb && sw.fam[FAM_EC] && sw.heavy_ok && rng.chance(1, 3) {
          // eight characters taken from an hour (or a child limit), asked for the instants that
          // carry them in a wide year range and then in a range nested in it
          let am = f.m.abs().max(1);
          let sd = f.d.min(28).max(1);
          let from_cl = rng.chance(1, 3);
          let (kind, args) = if from_cl { (7usize, vec![f.y, am, sd, f.h, f.mi, f.s, rng.range(0, 1)]) } else { (3usize, vec![f.y, am, sd, *rng.pick(&[f.h, 0, 23]), f.mi, f.s]) };
          let wide = 2 + 8 * rng.range(4, 7) + rng.range(5, 7);
          let narrow = 2 + 8 * rng.range(0, 3) + rng.range(0, 4);
          let seq = vec![
            Op::HNew { slot: sa, kind, args },
            Op::HDay { from: sa, to: sb, variant: 2 },
            Op::HGet { slot: sb, g: wide },
            Op::HGet { slot: sb, g: narrow },
            Op::HGet { slot: sb, g: 2 + 8 * rng.range(0, 7) + rng.range(0, 7) },
          ];
          slots_used[t][sa] = true;
          slots_used[t][sb] = true;
          slot_kind[t][sa] = kind;
          slot_kind[t][sb] = 6;
          slot_tup[t][sa] = f;
          slot_tup[t][sb] = f;
          for op in seq {
            threads[t].push(op);
            gs.handle_ops += 1;
            emitted += 1;
          }
          continue;
        }
        if sa != sb && !cands.is_empty() {
          let kind = *rng.pick(&cands);
          let am = f.m.abs().max(1);
          let sd = f.d.min(28).max(1);
          let (args, derive, dk): (Vec<i64>, Op, usize) = match kind {
            0 => {
              if rng.chance(1, 2) {
                (vec![f.y, f.m, f.d], Op::HHour { from: sa, to: sb, k: *rng.pick(&[0usize, 12, 12, 6]) }, 1)
              } else {
                (vec![f.y, f.m, f.d], Op::HDay { from: sa, to: sb, variant: 1 }, 2)
              }
            }
            1 => {
              let h = *rng.pick(&[f.h, 23, 23, 0]);
              if rng.chance(2, 3) {
                (vec![f.y, f.m, f.d, h, f.mi, f.s], Op::HDay { from: sa, to: sb, variant: 0 }, 0)
              } else {
                (vec![f.y, f.m, f.d, h, f.mi, f.s], Op::HDay { from: sa, to: sb, variant: 1 }, 3)
              }
            }
            2 => (vec![f.y, am, sd], Op::HHour { from: sa, to: sb, k: *rng.pick(&[0usize, 11, 6]) }, 3),
            _ => (vec![f.y, f.m, rng.range(0, 3), rng.range(0, 6)], Op::HDay { from: sa, to: sb, variant: 0 }, 0),
          };
          let seq = vec![
            Op::HNew { slot: sa, kind, args },
            Op::HGet { slot: sa, g: rng.below(crate::handles::HGETTERS[kind] as u64) as i64 },
            derive,
            Op::HGet { slot: sb, g: rng.below(crate::handles::HGETTERS[dk] as u64) as i64 },
            Op::HGet { slot: sb, g: rng.below(crate::handles::HGETTERS[dk] as u64) as i64 },
          ];
          slots_used[t][sa] = true;
          slots_used[t][sb] = true;
          slot_kind[t][sa] = kind;
          slot_kind[t][sb] = dk;
          slot_tup[t][sa] = f;
          slot_tup[t][sb] = f;
          for op in seq {
            threads[t].push(op);
            gs.handle_ops += 1;
            emitted += 1;
          }
          continue;
        }
      }
      // values that cross threads: a clone of a value goes into an exchange slot of the run, another
      // thread takes it out and asks it (whatever the value remembers was filled on the first
      // thread; anything it holds that is tied to the thread that made it shows here)
      if sw.threads > 1 && rng.chance(1, 9) && threads[t].len() + 3 <= sw.ops_per_thread {
        let g = rng.below(crate::script::GSLOTS as u64) as usize;
        if !filled.is_empty() && rng.chance(1, 2) {
          threads[t].push(Op::HPut { slot: *rng.pick(&filled), g });
          gs.handle_ops += 1;
          emitted += 1;
        } else {
          let slot = rng.below(SLOTS as u64) as usize;
          slots_used[t][slot] = true;
          threads[t].push(Op::HTake { slot, g });
          threads[t].push(Op::HGet { slot, g: rng.below(64) as i64 });
          threads[t].push(Op::HGet { slot, g: rng.below(64) as i64 });
          gs.handle_ops += 3;
          emitted += 3;
        }
        continue;
      }
      let op = if filled.is_empty() || rng.chance(1, 4) {
        let mut base = *rng.pick(&recent_tuples);
        if !filled.is_empty() && rng.chance(1, 3) {
          // a neighbour of a value this thread already holds: its leap twin, or another twin
          let other = slot_tup[t][*rng.pick(&filled)];
          base = if rng.chance(1, 2) { Tup { m: -other.m, ..other } } else { twin(rng, other, leap, sw.allow_invalid) };
        }
        // lunar days and hours carry the library's own memos: keep them the most frequent
        let kind = if (sw.fam[FAM_LD] || sw.fam[FAM_LH]) && rng.chance(2, 3) { *rng.pick(&hkinds.iter().cloned().filter(|k| *k < 2).collect::<Vec<usize>>()) } else { *rng.pick(&hkinds) };
        let slot = rng.below(SLOTS as u64) as usize;
        slots_used[t][slot] = true;
        slot_kind[t][slot] = kind;
        slot_tup[t][slot] = base;
        let am = base.m.abs().max(1);
        let sd = base.d.min(28).max(1);
        let args = match kind {
          0 => vec![base.y, base.m, base.d],
          1 => vec![base.y, base.m, base.d, base.h, base.mi, base.s],
          2 => vec![base.y, am, sd],
          3 => vec![base.y, am, sd, base.h, base.mi, base.s],
          4 => vec![base.y, base.m, rng.range(0, 4), rng.range(0, 6)],
          5 => vec![base.y, rng.range(-2, 26)],
          6 => vec![rng.range(0, 59), rng.range(0, 59), rng.range(0, 59), rng.range(0, 59), base.y],
          7 => vec![base.y, am, sd, base.h, base.mi, base.s, rng.range(0, 1)],
          8 | 9 => vec![base.y, am, sd, base.h, base.mi, base.s, rng.range(0, 1), rng.range(-1, 8)],
          10 => vec![base.y, rng.range(-2, 14)],
          _ => vec![base.y, rng.range(0, 12)],
        };
        Op::HNew { slot, kind, args }
      } else {
        let slot = *rng.pick(&filled);
        let kind = slot_kind[t][slot];
        match rng.below(10) {
          0 | 1 => Op::HNext { slot, n: *rng.pick(&[1i64, 1, -1, 2, 0, 0, 7, -7, 29, 30, -30, 1, 12]) },
          2 => {
            let to = rng.below(SLOTS as u64) as usize;
            slots_used[t][to] = true;
            slot_kind[t][to] = kind;
            Op::HClone { from: slot, to }
          }
          3 => {
            // derive a value from another one
            let to = rng.below(SLOTS as u64) as usize;
            slots_used[t][to] = true;
            match kind {
              1 => {
                let variant = rng.below(3) as usize;
                slot_kind[t][to] = [0, 3, 6][variant];
                Op::HDay { from: slot, to, variant }
              }
              3 => {
                slot_kind[t][to] = 6;
                Op::HDay { from: slot, to, variant: 2 }
              }
              7 => {
                let variant = rng.below(3) as usize;
                slot_kind[t][to] = [8, 9, 6][variant];
                Op::HDay { from: slot, to, variant }
              }
              8 => {
                let variant = rng.below(2) as usize;
                slot_kind[t][to] = [7, 9][variant];
                Op::HDay { from: slot, to, variant }
              }
              9 => {
                slot_kind[t][to] = 7;
                Op::HDay { from: slot, to, variant: 0 }
              }
              10 => {
                slot_kind[t][to] = 2;
                Op::HDay { from: slot, to, variant: 1 }
              }
              11 => {
                slot_kind[t][to] = 0;
                Op::HDay { from: slot, to, variant: 0 }
              }
              4 => {
                slot_kind[t][to] = 0;
                Op::HDay { from: slot, to, variant: 0 }
              }
              0 => {
                if rng.chance(1, 2) {
                  slot_kind[t][to] = 2;
                  Op::HDay { from: slot, to, variant: 1 }
                } else {
                  slot_kind[t][to] = 1;
                  Op::HHour { from: slot, to, k: *rng.pick(&[0usize, 12, 12, 1, 6, 11]) }
                }
              }
              2 => {
                slot_kind[t][to] = 3;
                Op::HHour { from: slot, to, k: *rng.pick(&[0usize, 11, 11, 1, 6]) }
              }
              _ => {
                slot_kind[t][to] = kind;
                Op::HClone { from: slot, to }
              }
            }
          }
          4 => {
            // compare with another slot of the same kind, if there is one (else with itself)
            let same: Vec<usize> = filled.iter().cloned().filter(|s2| slot_kind[t][*s2] == kind).collect();
            Op::HCmp { a: slot, b: *rng.pick(&same) }
          }
          _ => Op::HGet { slot, g: rng.below(crate::handles::HGETTERS[kind] as u64) as i64 },
        }
      };
      threads[t].push(op);
      gs.handle_ops += 1;
      emitted += 1;
      continue;
    }
    // pattern: the same name looked up in two different name tables of the same size, both ways
    // (a lookup cache keyed by too little of the table's identity), on one thread
    if sw.fam[FAM_SC] && rng.chance(1, 30) && threads[t].len() + 3 <= sw.ops_per_thread {
      let kn = kind_by_name("NAME").unwrap();
      let nt = NAME_TYPES.len();
      let ta = rng.below(nt as u64) as usize;
      let size = name_table_size(ta);
      let same: Vec<usize> = (0..nt).filter(|x| *x != ta && name_table_size(*x) == size).collect();
      let tb = if !same.is_empty() && rng.chance(4, 5) { *rng.pick(&same) } else { rng.below(nt as u64) as usize };
      let n = rng.below(size.max(1) as u64) as i64;
      let n2 = rng.below(size.max(1) as u64) as i64;
      let seq = vec![
        Query::new(kn, vec![ta as i64, n, 0, 0]),
        Query::new(kn, vec![tb as i64, n, 2, ta as i64]),
        Query::new(kn, vec![ta as i64, n2, 2, tb as i64]),
      ];
      for q in seq {
        threads[t].push(Op::Q { q, stop: false });
        emitted += 1;
      }
      continue;
    }
    // pattern: coarse-key mates — the same query (same kind, same getter, same trailing arguments)
    // for two dates that a memo keyed too coarsely would not tell apart: the two ends of one year,
    // the two halves of one month, two hours of one day; asked back to back on one thread, then the
    // first one again (a "last year / last month / last day" memo, per thread or process-wide)
    if rng.chance(1, 14) && threads[t].len() + 3 <= sw.ops_per_thread {
      let mut found: Option<usize> = None;
      for _ in 0..12 {
        let k = pick_kind(rng, sw);
        let n = KINDS[k].name;
        if KINDS[k].arity >= 3 && ["LD.", "LH.", "SD.", "ST.", "SCD.", "SCH.", "CL", "DF.", "FT."].iter().any(|p| n.starts_with(p)) && !n.ends_with(".cmp") && n != "SD.sub" {
          found = Some(k);
          break;
        }
      }
      if let Some(k) = found {
        let base = if rng.chance(3, 4) { *rng.pick(&recent_tuples) } else { gen_tuple(rng, sw.era, leap, false) };
        let base = Tup { y: base.y.max(2).min(9990), m: base.m.abs().max(1).min(12), d: base.d.max(1).min(28), ..base };
        let other = *rng.pick(&recent_tuples);
        let q1 = Query::new(k, args_for(rng, k, base, other));
        let mut a = q1.args.clone();
        let has_hour = KINDS[k].arity >= 6 && ["LH.", "ST.", "SCH.", "CL", "DF.", "FT."].iter().any(|p| KINDS[k].name.starts_with(p));
        match rng.below(if has_hour { 4 } else { 3 }) {
          0 | 1 => {
            // other end of the same year
            a[1] = if a[1].abs() <= 6 { rng.range(10, 12) } else { rng.range(1, 3) };
            a[2] = rng.range(1, 28);
          }
          2 => {
            // other half of the same month
            a[2] = if a[2] <= 14 { rng.range(18, 28) } else { rng.range(1, 10) };
          }
          _ => {
            // another hour of the same day (23 o'clock belongs to the next day's pillar)
            a[3] = if a[3] < 12 { *rng.pick(&[23i64, 23, 13, 18]) } else { *rng.pick(&[0i64, 1, 6]) };
          }
        }
        let q2 = Query::new(k, a);
        let (qa, qb) = if rng.chance(1, 2) { (q1, q2) } else { (q2, q1) };
        for q in [qa.clone(), qb, qa] {
          threads[t].push(Op::Q { q, stop: false });
          emitted += 1;
        }
        continue;
      }
    }
    // plain queries
    let q: Query;
    let roll = rng.below(100);
    if !recent.is_empty() && roll < sw.reask_pct {
      let base_q = rng.pick(&recent).clone();
      if sw.allow_invalid && rng.below(100) < sw.twin_pct / 2 {
        q = sibling(rng, &base_q);
        gs.twins += 1;
      } else {
        q = base_q;
        gs.reasks += 1;
      }
    } else if !pool.is_empty() && roll < sw.reask_pct + sw.pool_pct {
      q = rng.pick(pool).clone();
      gs.pool_ops += 1;
    } else {
      let mut base = if rng.chance(4, 5) { *rng.pick(&recent_tuples) } else { gen_tuple(rng, sw.era, leap, sw.allow_invalid) };
      if rng.below(100) < sw.twin_pct {
        base = twin(rng, base, leap, sw.allow_invalid);
        gs.twins += 1;
      }
      let other = *rng.pick(&recent_tuples);
      let k = pick_kind(rng, sw);
      q = Query::new(k, args_for(rng, k, base, other));
      if recent_tuples.len() < 24 {
        recent_tuples.push(base);
      }
    }
    // fault injection: a refused request right before this query (placement (a)/(b)/(d))
    if sw.fault_num > 0 && rng.chance(sw.fault_num, sw.fault_den) && threads[t].len() + 1 < sw.ops_per_thread {
      let base = if rng.chance(2, 3) && q.args.len() >= 2 && KINDS[q.kind].family <= FAM_LH && KINDS[q.kind].family != FAM_LY {
        // same month as the query that follows, or a twin of it
        let b = Tup { y: q.args[0], m: q.args[1], d: *q.args.get(2).unwrap_or(&1), h: 0, mi: 0, s: 0 };
        if rng.chance(1, 3) {
          twin(rng, b, leap, true)
        } else {
          b
        }
      } else {
        *rng.pick(&recent_tuples)
      };
      let (fq, class) = if sw.fam[FAM_EC] && rng.chance(1, 3) {
        provider_fault(rng)
      } else {
        let (bad, class) = corrupt(rng, base, leap);
        let fk = fault_kind(rng, class);
        // args_for clamps days for some solar kinds; LD/LH/LM kinds keep the corrupt value
        (Query::new(fk, args_for(rng, fk, bad, base)), class)
      };
      let stop = rng.chance(1, 4);
      threads[t].push(Op::Q { q: fq, stop });
      gs.faults_by_class[class as usize] += 1;
      gs.sandwiches += 1;
      any_fault = true;
      emitted += 1;
    }
    if recent.len() < 32 {
      recent.push(q.clone());
    } else {
      let i = rng.below(32) as usize;
      recent[i] = q.clone();
    }
    threads[t].push(Op::Q { q, stop: false });
    emitted += 1;
  }
  let sched_seed = rng.next_u64();
  let hash_seed = rng.next_u64() | 1;
  // allocation yield points: off for sequential histories, else every n-th library allocation
  let alloc_period = if sw.threads == 1 || matches!(sw.policy, Policy::Seq) { 0 } else { *rng.pick(&[0u32, 0, 997, 211, 53, 17]) };
  RunScript { threads, policy: sw.policy.clone(), sched_seed, hash_seed, reset, fault_free: !any_fault, alloc_period }
}

/// Pre-warm run: one thread, `n` requests with (almost surely) distinct arguments all over the year
/// range — lunar months, solar terms with their exact time, lunar days — to fill whatever the
/// library remembers before the multi-thread runs of a never-restarted worker begin.
pub fn gen_prewarm_run(rng: &mut Rng, n: usize, reset: bool) -> RunScript {
  let k_term = kind_by_name("TERM").unwrap();
  let k_ld = kind_by_name("LD.new").unwrap();
  let mut ops: Vec<Op> = Vec::with_capacity(n);
  for _ in 0..n {
    let y = rng.range(1, 9998);
    let q = match rng.below(20) {
      0..=11 => Query::new(K_LM_FROM_YM, vec![y, rng.range(1, 12)]),
      12..=16 => Query::new(k_term, vec![y, rng.range(0, 23)]),
      _ => Query::new(k_ld, vec![y, rng.range(1, 12), rng.range(1, 29)]),
    };
    ops.push(Op::Q { q, stop: false });
  }
  RunScript { threads: vec![ops], policy: Policy::Seq, sched_seed: 0, hash_seed: rng.next_u64() | 1, reset, fault_free: true, alloc_period: 0 }
}

/// Lap run (Policy::Park): one thread walks through 60-300 consecutive lunar months, asking each
/// one twice in a row (first time, then straight again); the other threads ask the first few of
/// the same months in the same order (so that they meet the walker inside the same first-time
/// computation), get parked there by the scheduler, and wake up a long stretch later, in the
/// middle of some other month of the walker. This is the shape in which a caller preempted
/// between two critical sections meets a recycled slot of a bounded structure (ring, clock
/// hand, generation counter) one or more laps later.
fn gen_lap_run(rng: &mut Rng, sw: &Swarm, leap: &Leap, reset: bool) -> RunScript {
  let nthreads = *rng.pick(&[2usize, 3, 4, 4, 6, 8]);
  let len = *rng.pick(&[70usize, 100, 140, 200, 300]);
  let shared = rng.range(3, 12) as usize;
  let kind = match rng.below(10) {
    0 => kind_by_name("LM.misc").unwrap(),
    1 => kind_by_name("LD.new").unwrap(),
    _ => K_LM_FROM_YM,
  };
  let mut y = year_in_era(rng, sw.era).max(1).min(9970);
  let mut m = rng.range(1, 12);
  let mut months: Vec<Query> = Vec::with_capacity(len);
  while months.len() < len {
    let lm = leap.of(y);
    let mut a = vec![y, m];
    if KINDS[kind].arity == 3 {
      a.push(rng.range(1, 29));
    }
    months.push(Query::new(kind, a.clone()));
    if lm == m && months.len() < len {
      a[1] = -m;
      months.push(Query::new(kind, a));
    }
    m += 1;
    if m > 12 {
      m = 1;
      y += 1;
    }
  }
  let mut threads: Vec<Vec<Op>> = vec![Vec::new(); nthreads];
  for q in &months {
    threads[0].push(Op::Q { q: q.clone(), stop: false });
    threads[0].push(Op::Q { q: q.clone(), stop: false });
  }
  for t in 1..nthreads {
    for q in months.iter().take(shared) {
      threads[t].push(Op::Q { q: q.clone(), stop: false });
    }
    for _ in 0..rng.range(0, 3) {
      threads[t].push(Op::Q { q: rng.pick(&months).clone(), stop: false });
    }
  }
  // the walker is thread 0, the one the Park policy never parks
  RunScript { threads, policy: Policy::Park, sched_seed: rng.next_u64(), hash_seed: rng.next_u64() | 1, reset, fault_free: true, alloc_period: 0 }
}

/// Stress run (Policy::Os): 2-4 threads hammer the same query kind with arguments that would
/// share a slot in a direct-mapped / truncated / modular structure (year +- 8..1024, +-60; month
/// +-12), each in a tight loop. No baton: the threads really run in parallel, so this reaches
/// races between instructions that neither lock nor allocate. Not deterministic; whatever it
/// finds is confirmed by repetition.
pub fn gen_stress_run(rng: &mut Rng, leap: &Leap, reset: bool) -> RunScript {
  // one run in twenty-four is a "batch export": 8-32 threads walk through the same 300-2,600
  // consecutive lunar months, each from its own offset, two to eight times over, in one tight loop per
  // thread (no harness lock between two requests) — many distinct keys AND real parallelism (a
  // generational or bounded structure rotates while other threads are inside it)
  if rng.chance(1, 24) {
    let nthreads = *rng.pick(&[8usize, 16, 32, 32]);
    let len = *rng.pick(&[300usize, 700, 1125, 1500, 2600]);
    let kind = if rng.chance(1, 5) { kind_by_name("LD.new").unwrap() } else { K_LM_FROM_YM };
    let mut y = if rng.chance(1, 2) { rng.range(1, 9800) } else { rng.range(1900, 2000) };
    let mut m = 1i64;
    let mut months: Vec<Query> = Vec::with_capacity(len);
    while months.len() < len {
      let mut a = vec![y, m];
      if KINDS[kind].arity == 3 {
        a.push(rng.range(1, 29));
      }
      months.push(Query::new(kind, a.clone()));
      if leap.of(y) == m && months.len() < len {
        a[1] = -m;
        months.push(Query::new(kind, a));
      }
      m += 1;
      if m > 12 {
        m = 1;
        y += 1;
      }
    }
    let mut threads: Vec<Vec<Op>> = Vec::new();
    for _ in 0..nthreads {
      let off = rng.below(len as u64) as usize;
      let qs: Vec<Query> = (0..len).map(|i| months[(off + i) % len].clone()).collect();
      threads.push(vec![Op::QAlt { qs, times: (8 * len as u64).min(6000).max(2 * len as u64) }]);
    }
    return RunScript { threads, policy: Policy::Os, sched_seed: 0, hash_seed: rng.next_u64() | 1, reset, fault_free: true, alloc_period: 0 };
  }
  let era = *rng.pick(&[1u64, 2, 2, 2, 4, 4]);
  let base = gen_tuple(rng, era, leap, false);
  let other = gen_tuple(rng, era, leap, false);
  // a cheap or medium query kind with at least one argument; kinds that take no lock of the
  // seam (solar side, terms, festivals, holidays, tables) three times as often as the others,
  // because those are the ones the baton scheduler can preempt least
  let lock_free = |name: &str| -> bool { ["HOL.", "SF.", "TERM", "SD.new", "SD.next", "SD.sub", "SM.", "SY.", "SW", "SS", "NAME", "TABOO", "PROVIDER"].iter().any(|p| name.starts_with(p)) };
  let mut k = K_LM_FROM_YM;
  for _ in 0..200 {
    let c = rng.below(KINDS.len() as u64) as usize;
    if KINDS[c].cost <= 1 && KINDS[c].arity >= 1 && KINDS[c].name != "CYCLE" && KINDS[c].name != "STAR" && KINDS[c].name != "JD" && (lock_free(KINDS[c].name) || rng.chance(1, 3)) {
      k = c;
      break;
    }
  }
  // one run in six is "deep": a lock-free kind, sustained for hundreds of thousands of
  // evaluations (narrow windows need volume, striped or per-thread structures need many live
  // threads at once); the others are broad and shallow
  let deep = rng.chance(1, 40);
  if deep {
    for _ in 0..200 {
      let c = rng.below(KINDS.len() as u64) as usize;
      if KINDS[c].cost == 0 && KINDS[c].arity >= 1 && lock_free(KINDS[c].name) {
        k = c;
        break;
      }
    }
  }
  let q0 = Query::new(k, args_for(rng, k, base, other));
  // mostly a handful of threads; sometimes many (more live threads than a striped or per-thread
  // structure has slots for), with shorter loops
  let nthreads = *rng.pick(&[2usize, 2, 2, 2, 2, 2, 3, 3, 3, 4, 4, 4, 4, 8, 16, 64]);
  // a fixed amount of work per run, shared by its threads
  let total: i64 = match (deep, KINDS[k].cost) {
    (true, _) => rng.range(100_000, 300_000),
    (false, 0) => rng.range(2000, 8000),
    _ => rng.range(300, 1200),
  };
  let nthreads = if deep { *rng.pick(&[2usize, 4, 16, 64, 64]) } else { nthreads };
  let reps: u64 = (total / nthreads as i64).max(12) as u64;
  // one kind for all threads, or (one run in three) a kind of its own for every thread: a
  // writer of one kind racing a reader of another
  let mixed = rng.chance(1, 3);
  let mut threads: Vec<Vec<Op>> = Vec::new();
  for t in 0..nthreads {
    let mut a = q0.args.clone();
    if t > 0 {
      let delta = *rng.pick(&[8i64, -8, 16, -16, 32, 64, -64, 128, 256, -256, 512, 1024, 60, -60, 4, 2]);
      if rng.chance(4, 5) || a.len() < 2 {
        a[0] += delta;
        if a[0] < 1 || a[0] > 9990 {
          a[0] = q0.args[0] - delta;
        }
      } else {
        a[1] = ((a[1] - 1 + delta.abs() % 12) % 12) + 1;
      }
    }
    let mut q = Query::new(k, a);
    if mixed && t > 0 {
      for _ in 0..64 {
        let c = rng.below(KINDS.len() as u64) as usize;
        if KINDS[c].cost <= 1 && KINDS[c].arity >= 1 && KINDS[c].name != "CYCLE" && KINDS[c].name != "STAR" && KINDS[c].name != "JD" {
          let tb = if rng.chance(1, 2) { base } else { Tup { y: q.args[0].max(1).min(9990), ..base } };
          q = Query::new(c, args_for(rng, c, tb, other));
          break;
        }
      }
    }
    // a thread that got a more expensive kind than the run was sized for loops less
    let reps: u64 = if KINDS[q.kind].cost > KINDS[k].cost { (reps / 8).max(12) } else { reps };
    let mut ops: Vec<Op> = Vec::new();
    if deep || rng.chance(1, 4) {
      // full-speed alternation between the query and shifted copies of it: every evaluation is
      // a miss in any "last argument" memo, per thread, per slot or global
      // each argument twice in a row: the second call is the remembered one (a hit that reads
      // what a concurrent miss of another thread may be half-way through writing)
      let mut qs = vec![q.clone(), q.clone()];
      for _ in 0..rng.range(1, 2) {
        let mut b = q.args.clone();
        b[0] += *rng.pick(&[1i64, -1, 8, 32, 256, 60, 7, 100]);
        if b[0] < 1 || b[0] > 9990 {
          b[0] = q.args[0];
        }
        let q2 = Query::new(q.kind, b);
        qs.push(q2.clone());
        qs.push(q2);
      }
      ops.push(Op::QAlt { qs, times: reps.max(40) });
    } else if rng.chance(1, 2) {
      // one long loop over one query (and once more after the others have been at it)
      ops.push(Op::QRep { q: q.clone(), times: reps });
      if rng.chance(1, 2) {
        ops.push(Op::QRep { q, times: reps / 2 + 1 });
      }
    } else {
      // alternate between the query and a shifted copy of it in short bursts: every switch is a
      // miss in a "last argument" memo, per thread or per slot
      let mut b = q.args.clone();
      b[0] += *rng.pick(&[1i64, -1, 8, 32, 256, 60, 7]);
      if b[0] < 1 || b[0] > 9990 {
        b[0] = q.args[0];
      }
      let q2 = Query::new(q.kind, b);
      let bursts = rng.range(4, 10) as u64;
      for i in 0..bursts {
        ops.push(Op::QRep { q: if i % 2 == 0 { q.clone() } else { q2.clone() }, times: (reps / bursts).max(3) });
      }
    }
    threads.push(ops);
  }
  // refusal prelude (a third of the stress runs): one to three refused requests — of the classes
  // that unwind through the month memo's critical section, plus a plain Err — on one thread or on
  // all of them, before the hammering starts; whatever a refusal leaves behind (a flag, a parity,
  // a half-written entry) then meets real parallelism
  let mut any_fault = false;
  if rng.chance(1, 3) {
    let all = rng.chance(1, 3);
    let n = rng.range(1, 3);
    let victim = rng.below(threads.len() as u64) as usize;
    for (t, ops) in threads.iter_mut().enumerate() {
      if !all && t != victim {
        continue;
      }
      for _ in 0..n {
        let (ct, class) = corrupt(rng, base, leap);
        let fk = if rng.chance(1, 2) { K_LM_FROM_YM } else { fault_kind(rng, class) };
        let q = if fk == K_LM_FROM_YM { Query::new(fk, vec![base.y, *rng.pick(&[13i64, 0, -13, 14])]) } else { Query::new(fk, args_for(rng, fk, ct, other)) };
        ops.insert(0, Op::Q { q, stop: false });
        any_fault = true;
      }
    }
  }
  RunScript { threads, policy: Policy::Os, sched_seed: 0, hash_seed: rng.next_u64() | 1, reset, fault_free: !any_fault, alloc_period: 0 }
}
