//! Baton scheduler over real OS threads.
//!
//! Exactly one simulated caller thread runs at a time; it gives the baton up only at yield
//! points (start of an operation, before a lock, after an unlock, end of thread) and the next
//! holder is chosen by a seeded policy (or taken from a recorded trace on replay). The real
//! `std::sync::Mutex` inside the library is still locked and unlocked by the library itself,
//! so panics, unwinding and poisoning are std's own behaviour.

use std::cell::{Cell, RefCell};
use std::sync::atomic::{AtomicBool, Ordering};
use std::sync::{Arc, Condvar, Mutex, MutexGuard, OnceLock};
use std::thread::Thread;
use std::time::Duration;

use crate::rng::{fnv, Rng, FNV0};

thread_local! {
  static TID: Cell<usize> = Cell::new(usize::MAX);
  static GO: RefCell<Option<Arc<AtomicBool>>> = RefCell::new(None);
}

// ---------------------------------------------------------------------------------------------
// Allocator seam: the simulator's binary installs `YieldAlloc` as the global allocator. While a
// simulated thread executes library code, every `period`-th allocation is a yield point, so the
// library can be preempted between a read of shared state and its use even where no lock is
// involved (anything that builds a String or a Vec in between). Off inside the scheduler itself.

thread_local! {
  /// (countdown to the next yielding allocation, period; period 0 = off)
  static ALLOC_CTL: Cell<(u32, u32)> = const { Cell::new((0, 0)) };
  /// > 0 while this thread is inside scheduler / harness code
  static IN_SCHED: Cell<u32> = const { Cell::new(0) };
}

/// An operation that makes this many allocations without returning is in an endless loop (the
/// largest legitimate operation makes well under a million; this many take a few seconds).
pub const ALLOC_BUDGET: u64 = 40_000_000;
/// the allocation yield period of the run in progress (set by the executor)
/// wall-clock limits: one operation (legitimately milliseconds), one whole run (legitimately well
/// under a second); the watchdog period caps them when it is set lower (replays)
pub const OP_WALL_LIMIT: Duration = Duration::from_secs(10);
pub const RUN_WALL_LIMIT: Duration = Duration::from_secs(60);
pub static RUN_ALLOC_PERIOD: std::sync::atomic::AtomicU32 = std::sync::atomic::AtomicU32::new(0);

pub struct YieldAlloc;

unsafe impl std::alloc::GlobalAlloc for YieldAlloc {
  unsafe fn alloc(&self, layout: std::alloc::Layout) -> *mut u8 {
    alloc_tick();
    std::alloc::System.alloc(layout)
  }

  unsafe fn dealloc(&self, ptr: *mut u8, layout: std::alloc::Layout) {
    std::alloc::System.dealloc(ptr, layout)
  }

  unsafe fn alloc_zeroed(&self, layout: std::alloc::Layout) -> *mut u8 {
    alloc_tick();
    std::alloc::System.alloc_zeroed(layout)
  }

  unsafe fn realloc(&self, ptr: *mut u8, layout: std::alloc::Layout, new_size: usize) -> *mut u8 {
    std::alloc::System.realloc(ptr, layout, new_size)
  }
}

#[inline]
fn alloc_tick() {
  let due = ALLOC_CTL
    .try_with(|c| {
      let (left, period) = c.get();
      if period == 0 {
        return false;
      }
      if left > 1 {
        c.set((left - 1, period));
        false
      } else {
        c.set((period, period));
        true
      }
    })
    .unwrap_or(false);
  if due && IN_SCHED.try_with(|d| d.get()).unwrap_or(1) == 0 {
    let me = current_tid();
    if me != usize::MAX {
      let _g = SchedGuard::enter();
      // never panics: allocation must not unwind
      let _ = sim().yield_point(me, Ev::Alloc, 255);
    }
  }
}

/// Marks "inside the scheduler" for the current thread (allocations made here never yield).
pub struct SchedGuard;

impl SchedGuard {
  pub fn enter() -> Self {
    let _ = IN_SCHED.try_with(|d| d.set(d.get() + 1));
    SchedGuard
  }
}

impl Drop for SchedGuard {
  fn drop(&mut self) {
    let _ = IN_SCHED.try_with(|d| d.set(d.get().saturating_sub(1)));
  }
}

thread_local! {
  /// what `lib_scope` turns on: (period, phase) chosen by the executor for the current operation
  static ALLOC_PLAN: Cell<(u32, u32)> = const { Cell::new((0, 0)) };
}

pub fn set_alloc_plan(period: u32, phase: u32) {
  let _ = ALLOC_PLAN.try_with(|c| c.set((period, phase)));
}

/// Allocation yield points are on exactly while this guard lives (around one library call).
pub struct LibScope;

pub fn lib_scope() -> LibScope {
  let (period, phase) = ALLOC_PLAN.try_with(|c| c.get()).unwrap_or((0, 0));
  alloc_yields_on(period, phase);
  LibScope
}

impl Drop for LibScope {
  fn drop(&mut self) {
    alloc_yields_off();
  }
}

/// Enable allocation yield points for the library call the current thread is about to make.
pub fn alloc_yields_on(period: u32, phase: u32) {
  let _ = ALLOC_CTL.try_with(|c| c.set((if period == 0 { 0 } else { 1 + phase % period }, period)));
}

pub fn alloc_yields_off() {
  let _ = ALLOC_CTL.try_with(|c| c.set((0, 0)));
}

pub fn current_tid() -> usize {
  TID.with(|t| t.get())
}

/// Panic payload used to remove a simulated thread from a run that is being aborted.
pub struct AbortRun;

#[derive(Clone, Copy, PartialEq, Eq, Debug)]
#[repr(u8)]
pub enum Ev {
  OpStart = 0,
  BeforeLock = 1,
  Acquired = 2,
  AcquiredPoisoned = 3,
  Unlock = 4,
  UnlockPanicking = 5,
  Blocked = 6,
  ThreadEnd = 7,
  TryLock = 8,
  Alloc = 9,
}

pub const EV_NAMES: [&str; 10] = ["op", "lock?", "locked", "locked!poisoned", "unlock", "unlock!panicking", "blocked", "end", "trylock?", "alloc"];

#[derive(Clone, Debug)]
pub enum Policy {
  /// threads run to completion one after another, in a seeded order
  Seq,
  /// switch at operation boundaries, round robin
  RoundRobin,
  /// uniform random choice at every yield point
  RandomWalk,
  /// random priorities with `depth - 1` priority change points
  Pct(u32),
  /// random walk, except that victim threads are parked at one of their own yield points for a
  /// long stretch (tens to thousands of steps of the others) and then resumed at once, wherever
  /// the others happen to be, and kept running for a few decisions (a caller preempted between
  /// two critical sections for a long time)
  Park,
  /// replay: the recorded choice at every decision point (>= 2 runnable threads)
  Fixed(Vec<u8>),
  /// no baton: all threads are released at once and the operating system schedules them
  /// (stress sub-check; not deterministic, its findings are confirmed by repetition)
  Os,
}

impl Policy {
  pub fn name(&self) -> String {
    match self {
      Policy::Seq => "seq".to_string(),
      Policy::RoundRobin => "rr".to_string(),
      Policy::RandomWalk => "rw".to_string(),
      Policy::Pct(d) => format!("pct{}", d),
      Policy::Park => "park".to_string(),
      Policy::Fixed(_) => "fixed".to_string(),
      Policy::Os => "os".to_string(),
    }
  }
}

#[derive(Clone, Copy, PartialEq, Eq, Debug)]
enum Status {
  Runnable,
  Blocked(usize),
  Finished,
}

struct Th {
  status: Status,
  thread: Option<Thread>,
  go: Arc<AtomicBool>,
  op: u32,
  op_steps: u64,
  prio: i64,
  last_ran_step: u64,
  os_tid: u64,
  op_alloc_yields: u64,
  op_started: std::time::Instant,
}

#[derive(Clone, Debug, Default)]
pub struct RunStats {
  pub steps: u64,
  pub decisions: u64,
  pub switches: u64,
  pub blocked_events: u64,
  pub lock_acquisitions: u64,
  pub unwinds_by_lock: Vec<u64>,
  pub poisoned_acq_by_lock: Vec<u64>,
  pub unwind_while_waiter: u64,
  pub max_op_steps: u64,
  pub starvation_stretches: u64,
  pub max_held_locks: u64,
  pub locks_seen: u64,
  pub try_locks: u64,
  pub alloc_yields: u64,
  /// Policy::Park: victims taken off the runnable set, and scheduler steps they sat out in total
  pub parks: u64,
  pub parked_steps: u64,
}

pub struct St {
  threads: Vec<Th>,
  current: usize,
  holder: Vec<Option<usize>>,
  lock_addr: Vec<usize>,
  step: u64,
  policy: Policy,
  rng: Rng,
  fixed_pos: usize,
  pub diverged: bool,
  pct_change: Vec<u64>,
  /// Policy::Park, per thread: (own yield count at which it is parked, steps of the others it
  /// sits out; u64::MAX = never parked), state (0 not yet, 1 parked, 2 released), step it was
  /// parked at, own yields so far
  park_plan: Vec<(u64, u64)>,
  park_state: Vec<u8>,
  park_since: Vec<u64>,
  park_yields: Vec<u64>,
  /// (thread, decisions left) for which a released victim keeps the baton
  park_boost: (usize, u32),
  trace: Vec<u8>,
  /// who was at a yield point when each decision was taken: (thread, its operation index)
  trace_owner: Vec<(u8, u32)>,
  log_hash: u64,
  keep_log: bool,
  log: Vec<(u8, u8, u8, u32)>,
  abort: Option<String>,
  /// set when a simulated thread turned out to be blocked on a primitive outside the seam:
  /// all threads are released and the run completes under the OS scheduler
  free_run: bool,
  budget: u64,
  finished: usize,
  stats: RunStats,
  state_samples: Vec<u64>,
}

pub struct RunResult {
  pub trace: Vec<u8>,
  pub trace_owner: Vec<(u8, u32)>,
  pub log_hash: u64,
  pub log: Vec<(u8, u8, u8, u32)>,
  pub abort: Option<String>,
  pub diverged: bool,
  pub stats: RunStats,
  pub watchdog: bool,
  /// hashes of (held-lock set, blocked set) sampled at every yield point
  pub sched_states: Vec<u64>,
  /// real addresses of the locks, by run-local lock id
  pub lock_addrs: Vec<usize>,
  /// the run left simulator control (see St::free_run); it is not replayable
  pub free_run: bool,
}

pub struct Sim {
  st: Mutex<Option<St>>,
  cv: Condvar,
}

static SIM: OnceLock<Sim> = OnceLock::new();

/// how often a run had to be released from simulator control in this process; when this keeps
/// happening (a lock outside the seam is held across yield points) multi-thread runs start free
static FREE_RUN_EVENTS: std::sync::atomic::AtomicU64 = std::sync::atomic::AtomicU64::new(0);

/// true while a run that is free from its first instruction (Policy::Os) is executing: the
/// hooks then return at once, without touching the scheduler's own mutex, so that simulated
/// threads really run in parallel
static FREE_FAST: AtomicBool = AtomicBool::new(false);
/// operations started while FREE_FAST (progress indicator for the watchdog)
static OS_PROGRESS: std::sync::atomic::AtomicU64 = std::sync::atomic::AtomicU64::new(0);

pub fn sim() -> &'static Sim {
  SIM.get_or_init(|| Sim { st: Mutex::new(None), cv: Condvar::new() })
}

struct SimHooks;

impl tyme4rs::tyme::verif::Hooks for SimHooks {
  fn before_lock(&self, addr: usize) {
    let me = current_tid();
    if me != usize::MAX && !FREE_FAST.load(Ordering::Relaxed) {
      let _g = SchedGuard::enter();
      sim().before_lock(me, addr, false);
    }
  }

  fn before_try_lock(&self, addr: usize) {
    let me = current_tid();
    if me != usize::MAX && !FREE_FAST.load(Ordering::Relaxed) {
      let _g = SchedGuard::enter();
      sim().before_lock(me, addr, true);
    }
  }

  fn acquired(&self, addr: usize, poisoned: bool) {
    let me = current_tid();
    if me != usize::MAX && !FREE_FAST.load(Ordering::Relaxed) {
      let _g = SchedGuard::enter();
      sim().acquired(me, addr, poisoned);
    }
  }

  fn after_unlock(&self, addr: usize, panicking: bool) {
    let me = current_tid();
    if me != usize::MAX && !FREE_FAST.load(Ordering::Relaxed) {
      let _g = SchedGuard::enter();
      sim().after_unlock(me, addr, panicking);
    }
  }
}

pub fn install_hooks() {
  tyme4rs::tyme::verif::install(Box::new(SimHooks));
}

fn wait_go() {
  GO.with(|g| {
    let g = g.borrow();
    let flag = g.as_ref().expect("not a simulated thread");
    loop {
      if flag.swap(false, Ordering::AcqRel) {
        break;
      }
      std::thread::park();
    }
  });
}

impl St {
  fn wake(&self, n: usize) {
    let th = &self.threads[n];
    th.go.store(true, Ordering::Release);
    if let Some(t) = &th.thread {
      t.unpark();
    }
  }

  fn wake_all(&self) {
    for n in 0..self.threads.len() {
      if self.threads[n].status != Status::Finished {
        self.wake(n);
      }
    }
  }

  fn lock_id(&mut self, addr: usize) -> usize {
    for (i, a) in self.lock_addr.iter().enumerate() {
      if *a == addr {
        return i;
      }
    }
    self.lock_addr.push(addr);
    self.holder.push(None);
    self.stats.unwinds_by_lock.push(0);
    self.stats.poisoned_acq_by_lock.push(0);
    self.stats.locks_seen = self.lock_addr.len() as u64;
    self.lock_addr.len() - 1
  }

  fn record(&mut self, tid: usize, ev: Ev, lock: usize) {
    let op = if tid < self.threads.len() { self.threads[tid].op } else { 0 };
    let rec = [tid as u8, ev as u8, lock as u8, (op & 0xff) as u8, (op >> 8) as u8];
    self.log_hash = fnv(self.log_hash, &rec);
    if self.keep_log {
      self.log.push((tid as u8, ev as u8, lock as u8, op));
    }
  }

  fn sample_state(&mut self) {
    let mut h = FNV0;
    for (l, o) in self.holder.iter().enumerate() {
      if let Some(t) = o {
        h = fnv(h, &[1, l as u8, *t as u8]);
      }
    }
    for (t, th) in self.threads.iter().enumerate() {
      match th.status {
        Status::Blocked(l) => h = fnv(h, &[2, t as u8, l as u8]),
        Status::Finished => h = fnv(h, &[3, t as u8]),
        _ => {}
      }
    }
    self.state_samples.push(h);
  }

  fn set_abort(&mut self, why: String) {
    if self.abort.is_none() {
      self.abort = Some(why);
    }
    self.wake_all();
  }

  fn runnable(&self) -> Vec<usize> {
    (0..self.threads.len()).filter(|i| self.threads[*i].status == Status::Runnable).collect()
  }

  /// Pick the next thread to run among the runnable ones.
  fn choose(&mut self, me: usize, at_op_start: bool) -> Option<usize> {
    let cands = self.runnable();
    if cands.is_empty() {
      return None;
    }
    if cands.len() == 1 {
      return Some(cands[0]);
    }
    self.stats.decisions += 1;
    let cur = self.current;
    let cur_ok = cands.contains(&cur);
    let fallback = if cur_ok { cur } else { cands[0] };
    let choice = match &self.policy {
      Policy::Fixed(list) => {
        if self.fixed_pos < list.len() {
          let c = list[self.fixed_pos] as usize;
          self.fixed_pos += 1;
          if cands.contains(&c) {
            c
          } else {
            self.diverged = true;
            fallback
          }
        } else {
          self.diverged = true;
          fallback
        }
      }
      Policy::Seq => {
        if cur_ok {
          cur
        } else {
          cands[self.rng.below(cands.len() as u64) as usize]
        }
      }
      Policy::RoundRobin => {
        if cur_ok && !at_op_start {
          cur
        } else {
          let n = self.threads.len();
          let mut c = fallback;
          for k in 1..=n {
            let t = (cur.wrapping_add(k)) % n;
            if cands.contains(&t) {
              c = t;
              break;
            }
          }
          c
        }
      }
      Policy::RandomWalk | Policy::Os => cands[self.rng.below(cands.len() as u64) as usize],
      Policy::Park => {
        let step = self.step;
        if me < self.park_yields.len() {
          self.park_yields[me] += 1;
          if self.park_state[me] == 0 && self.park_yields[me] >= self.park_plan[me].0 && cands.contains(&me) {
            self.park_state[me] = 1;
            self.park_since[me] = step;
            self.stats.parks += 1;
          }
        }
        // a victim whose time is up is resumed now and keeps the baton for a few decisions
        let mut due: Option<usize> = None;
        for c in &cands {
          if self.park_state[*c] == 1 && step.saturating_sub(self.park_since[*c]) >= self.park_plan[*c].1 {
            due = Some(*c);
            break;
          }
        }
        if let Some(v) = due {
          self.stats.parked_steps += step.saturating_sub(self.park_since[v]);
          self.park_state[v] = 2;
          self.park_boost = (v, 3);
          v
        } else if self.park_boost.1 > 0 && cands.contains(&self.park_boost.0) {
          self.park_boost.1 -= 1;
          self.park_boost.0
        } else {
          let free: Vec<usize> = cands.iter().cloned().filter(|c| self.park_state[*c] != 1).collect();
          if free.is_empty() {
            // everybody who can run is parked: the one parked first is released
            let mut v = cands[0];
            for c in &cands {
              if self.park_since[*c] < self.park_since[v] {
                v = *c;
              }
            }
            self.stats.parked_steps += step.saturating_sub(self.park_since[v]);
            self.park_state[v] = 2;
            self.park_boost = (v, 3);
            v
          } else {
            free[self.rng.below(free.len() as u64) as usize]
          }
        }
      }
      Policy::Pct(_) => {
        let step = self.step;
        let due = self.pct_change.iter().filter(|c| **c <= step).count();
        if due > 0 {
          self.pct_change.retain(|c| *c > step);
          if cur_ok {
            let minp = self.threads.iter().map(|t| t.prio).min().unwrap_or(0);
            self.threads[cur].prio = minp - 1;
          }
        }
        let mut best = cands[0];
        for c in &cands {
          if self.threads[*c].prio > self.threads[best].prio {
            best = *c;
          }
        }
        best
      }
    };
    self.trace.push(choice as u8);
    let owner_op = if me < self.threads.len() { self.threads[me].op } else { 0 };
    self.trace_owner.push((if me < self.threads.len() { me as u8 } else { 255 }, owner_op));
    Some(choice)
  }

  fn note_run(&mut self, next: usize) {
    let step = self.step;
    let th = &mut self.threads[next];
    if step > th.last_ran_step + 100 && th.last_ran_step > 0 {
      self.stats.starvation_stretches += 1;
    }
    th.last_ran_step = step;
  }
}

type Guard<'a> = MutexGuard<'a, Option<St>>;

impl Sim {
  fn lock(&self) -> Guard<'_> {
    self.st.lock().unwrap_or_else(|e| e.into_inner())
  }

  /// Hand the baton to `next` (already chosen) and park until chosen again.
  fn hand_over(&self, mut g: Guard<'_>, me: usize, next: usize) {
    {
      let st = g.as_mut().unwrap();
      st.current = next;
      st.stats.switches += 1;
      st.note_run(next);
      st.wake(next);
    }
    drop(g);
    let _ = me;
    wait_go();
  }

  fn abort_exit(&self, can_panic: bool) {
    if can_panic && !std::thread::panicking() {
      std::panic::panic_any(AbortRun);
    }
  }

  /// A yield point of thread `me`. Returns false if the run is being aborted.
  fn yield_point(&self, me: usize, ev: Ev, lock: usize) -> bool {
    let mut g = self.lock();
    let st = match g.as_mut() {
      Some(s) => s,
      None => return true,
    };
    if st.abort.is_some() {
      return false;
    }
    st.record(me, ev, lock);
    st.step += 1;
    st.stats.steps += 1;
    if st.free_run {
      // the OS schedules this run (a primitive outside the seam blocked the baton holder): the
      // hooks that are left become seeded jitter points, so that the threads do not run in the
      // same lock step every time (a short sleep or a yield widens whatever window there is)
      let r = st.rng.below(16);
      let us = 20 + st.rng.below(300);
      drop(g);
      if r == 0 {
        std::thread::sleep(Duration::from_micros(us));
      } else if r < 4 {
        std::thread::yield_now();
      }
      return true;
    }
    st.sample_state();
    if ev != Ev::Alloc {
      st.threads[me].op_steps += 1;
    } else {
      st.stats.alloc_yields += 1;
      st.threads[me].op_alloc_yields += 1;
      let period = RUN_ALLOC_PERIOD.load(Ordering::Relaxed).max(1) as u64;
      if st.threads[me].op_alloc_yields.saturating_mul(period) > ALLOC_BUDGET {
        let why = format!("step budget exceeded: thread {} operation {} keeps allocating without returning (more than {} allocations)", me, st.threads[me].op, ALLOC_BUDGET);
        st.set_abort(why);
        return false;
      }
    }
    if st.threads[me].op_steps > st.stats.max_op_steps {
      st.stats.max_op_steps = st.threads[me].op_steps;
    }
    if st.threads[me].op_steps > st.budget {
      let why = format!("step budget exceeded: thread {} operation {} made more than {} scheduler steps", me, st.threads[me].op, st.budget);
      st.set_abort(why);
      return false;
    }
    st.threads[me].last_ran_step = st.step;
    match st.choose(me, ev == Ev::OpStart) {
      Some(next) if next != me => {
        self.hand_over(g, me, next);
        let g = self.lock();
        match g.as_ref() {
          Some(s) => s.abort.is_none(),
          None => true,
        }
      }
      _ => true,
    }
  }

  /// Called by the thread body before each operation. Returns false when the run is aborted.
  pub fn op_start(&self, me: usize, op: u32) -> bool {
    if FREE_FAST.load(Ordering::Relaxed) {
      OS_PROGRESS.fetch_add(1, Ordering::Relaxed);
      return true;
    }
    let _g = SchedGuard::enter();
    {
      let mut g = self.lock();
      if let Some(st) = g.as_mut() {
        st.threads[me].op = op;
        st.threads[me].op_steps = 0;
        st.threads[me].op_alloc_yields = 0;
        st.threads[me].op_started = std::time::Instant::now();
      }
    }
    self.yield_point(me, Ev::OpStart, 255)
  }

  fn before_lock(&self, me: usize, addr: usize, is_try: bool) {
    let l = {
      let mut g = self.lock();
      match g.as_mut() {
        Some(st) => st.lock_id(addr),
        None => return,
      }
    };
    if !self.yield_point(me, if is_try { Ev::TryLock } else { Ev::BeforeLock }, l) {
      self.abort_exit(true);
      return;
    }
    if is_try {
      let mut g = self.lock();
      if let Some(st) = g.as_mut() {
        st.stats.try_locks += 1;
      }
      return;
    }
    loop {
      let mut g = self.lock();
      let st = match g.as_mut() {
        Some(s) => s,
        None => return,
      };
      if st.abort.is_some() {
        drop(g);
        self.abort_exit(true);
        return;
      }
      if st.free_run {
        st.threads[me].status = Status::Runnable;
        return;
      }
      match st.holder[l] {
        None => return,
        Some(h) if h == me => {
          let why = format!("self-deadlock: thread {} operation {} locks L{} while holding it", me, st.threads[me].op, l);
          st.set_abort(why);
          drop(g);
          self.abort_exit(true);
          return;
        }
        Some(_) => {
          st.threads[me].status = Status::Blocked(l);
          st.record(me, Ev::Blocked, l);
          st.stats.blocked_events += 1;
          st.sample_state();
          match st.choose(me, false) {
            Some(next) => {
              self.hand_over(g, me, next);
            }
            None => {
              let mut desc = String::new();
              for (t, th) in st.threads.iter().enumerate() {
                if let Status::Blocked(bl) = th.status {
                  desc.push_str(&format!(" T{}(op {}) waits L{} held by T{:?};", t, th.op, bl, st.holder[bl]));
                }
              }
              st.set_abort(format!("deadlock:{}", desc));
              drop(g);
              self.abort_exit(true);
              return;
            }
          }
        }
      }
    }
  }

  fn acquired(&self, me: usize, addr: usize, poisoned: bool) {
    let mut g = self.lock();
    if let Some(st) = g.as_mut() {
      let l = st.lock_id(addr);
      st.holder[l] = Some(me);
      st.stats.lock_acquisitions += 1;
      if poisoned {
        st.stats.poisoned_acq_by_lock[l] += 1;
      }
      let held = st.holder.iter().filter(|h| **h == Some(me)).count() as u64;
      if held > st.stats.max_held_locks {
        st.stats.max_held_locks = held;
      }
      st.record(me, if poisoned { Ev::AcquiredPoisoned } else { Ev::Acquired }, l);
    }
  }

  fn after_unlock(&self, me: usize, addr: usize, panicking: bool) {
    let l;
    {
      let mut g = self.lock();
      let st = match g.as_mut() {
        Some(s) => s,
        None => return,
      };
      l = st.lock_id(addr);
      if st.holder[l] == Some(me) {
        st.holder[l] = None;
      }
      let mut had_waiter = false;
      for th in st.threads.iter_mut() {
        if th.status == Status::Blocked(l) {
          th.status = Status::Runnable;
          had_waiter = true;
        }
      }
      if panicking {
        st.stats.unwinds_by_lock[l] += 1;
        if had_waiter {
          st.stats.unwind_while_waiter += 1;
        }
      }
      if st.abort.is_some() || st.free_run {
        return;
      }
    }
    // never panics: this may run while unwinding
    let _ = self.yield_point(me, if panicking { Ev::UnlockPanicking } else { Ev::Unlock }, l);
  }

  fn thread_end(&self, me: usize) {
    let _g = SchedGuard::enter();
    let mut g = self.lock();
    let st = match g.as_mut() {
      Some(s) => s,
      None => return,
    };
    st.threads[me].status = Status::Finished;
    st.finished += 1;
    st.record(me, Ev::ThreadEnd, 255);
    st.step += 1;
    st.stats.steps += 1;
    st.sample_state();
    if st.finished == st.threads.len() {
      self.cv.notify_all();
      return;
    }
    if st.abort.is_some() || st.free_run {
      return;
    }
    match st.choose(me, false) {
      Some(next) => {
        st.current = next;
        st.stats.switches += 1;
        st.note_run(next);
        st.wake(next);
      }
      None => {
        let mut desc = String::new();
        for (t, th) in st.threads.iter().enumerate() {
          if let Status::Blocked(bl) = th.status {
            desc.push_str(&format!(" T{}(op {}) waits L{} held by T{:?};", t, th.op, bl, st.holder[bl]));
          }
        }
        st.set_abort(format!("deadlock after thread {} ended:{}", me, desc));
      }
    }
  }

  /// Execute one run: `nthreads` simulated callers, each executing `body(tid)`.
  pub fn run(&self, nthreads: usize, policy: Policy, sched_seed: u64, budget: u64, keep_log: bool, est_steps: u64, watchdog: Duration, body: Arc<dyn Fn(usize) + Send + Sync>) -> RunResult {
    let mut rng = Rng::new(sched_seed);
    let mut threads: Vec<Th> = Vec::new();
    let mut prios: Vec<i64> = (0..nthreads as i64).map(|x| x + 1).collect();
    rng.shuffle(&mut prios);
    for i in 0..nthreads {
      threads.push(Th { status: Status::Runnable, thread: None, go: Arc::new(AtomicBool::new(false)), op: 0, op_steps: 0, prio: prios[i], last_ran_step: 0, os_tid: 0, op_alloc_yields: 0, op_started: std::time::Instant::now() });
    }
    let mut pct_change: Vec<u64> = Vec::new();
    if let Policy::Pct(d) = &policy {
      for _ in 1..*d {
        pct_change.push(rng.below(est_steps.max(8)));
      }
    }
    let os_policy = matches!(policy, Policy::Os);
    // Park: thread 0 is never parked; each of the others is a victim with probability 3/4
    // (at least one), parked at one of its first yields, for a fixed or a uniformly drawn stretch
    let mut park_plan: Vec<(u64, u64)> = vec![(u64::MAX, 0); nthreads];
    if matches!(policy, Policy::Park) && nthreads >= 2 {
      let runner = 0usize;
      let sure = 1 + rng.below(nthreads as u64 - 1) as usize;
      for (t, p) in park_plan.iter_mut().enumerate() {
        if t != runner && (t == sure || rng.chance(3, 4)) {
          let at = if rng.chance(1, 2) { 1 + rng.below(12) } else { 1 + rng.below(40) };
          let hold = if rng.chance(1, 2) { *rng.pick(&[20u64, 100, 400, 1500, 5000]) } else { rng.below((est_steps / 2).max(8)) };
          *p = (at, hold);
        }
      }
    }
    let st = St {
      threads,
      current: usize::MAX,
      holder: Vec::new(),
      lock_addr: Vec::new(),
      step: 0,
      policy,
      rng,
      fixed_pos: 0,
      diverged: false,
      pct_change,
      park_plan,
      park_state: vec![0; nthreads],
      park_since: vec![0; nthreads],
      park_yields: vec![0; nthreads],
      park_boost: (0, 0),
      trace: Vec::new(),
      trace_owner: Vec::new(),
      log_hash: FNV0,
      keep_log,
      log: Vec::new(),
      abort: None,
      free_run: os_policy || (nthreads > 1 && FREE_RUN_EVENTS.load(Ordering::SeqCst) >= 12),
      budget,
      finished: 0,
      stats: RunStats::default(),
      state_samples: Vec::new(),
    };
    FREE_FAST.store(os_policy, Ordering::SeqCst);
    let gos: Vec<Arc<AtomicBool>> = st.threads.iter().map(|t| t.go.clone()).collect();
    *self.lock() = Some(st);

    let mut handles = Vec::new();
    for i in 0..nthreads {
      let go = gos[i].clone();
      let body = body.clone();
      let h = std::thread::Builder::new()
        .name(format!("sim-{}", i))
        .stack_size(4 << 20)
        .spawn(move || {
          TID.with(|t| t.set(i));
          GO.with(|g| *g.borrow_mut() = Some(go));
          let os_tid: u64 = std::fs::read_link("/proc/thread-self").ok().and_then(|p| p.file_name().and_then(|n| n.to_str().and_then(|s| s.parse::<u64>().ok()))).unwrap_or(0);
          {
            let mut g = sim().lock();
            if let Some(st) = g.as_mut() {
              st.threads[i].os_tid = os_tid;
            }
          }
          wait_go();
          let aborted = {
            let g = sim().lock();
            g.as_ref().map(|s| s.abort.is_some()).unwrap_or(true)
          };
          if !aborted {
            let r = std::panic::catch_unwind(std::panic::AssertUnwindSafe(|| body(i)));
            if let Err(p) = r {
              if p.downcast_ref::<AbortRun>().is_none() {
                // a panic of the harness itself; make it visible
                let msg = p.downcast_ref::<String>().cloned().or_else(|| p.downcast_ref::<&str>().map(|s| s.to_string())).unwrap_or_default();
                let mut g = sim().lock();
                if let Some(st) = g.as_mut() {
                  st.set_abort(format!("harness-panic: {}", msg));
                }
              }
            }
          }
          sim().thread_end(i);
          TID.with(|t| t.set(usize::MAX));
        })
        .expect("spawn");
      handles.push(h);
    }
    {
      let mut g = self.lock();
      let st = g.as_mut().unwrap();
      for (i, h) in handles.iter().enumerate() {
        st.threads[i].thread = Some(h.thread().clone());
      }
      let first = st.choose(usize::MAX, true).unwrap();
      st.current = first;
      st.note_run(first);
      if st.free_run {
        st.wake_all();
      } else {
        st.wake(first);
      }
    }
    // wait for completion
    let mut watchdog_fired = false;
    let mut fire_reason: &str;
    {
      // progress watchdog: fires when no yield point has been reached for `watchdog`
      let mut g = self.lock();
      let mut last_step = u64::MAX;
      let mut last_change = std::time::Instant::now();
      let run_started = std::time::Instant::now();
      fire_reason = "reached no yield point";
      loop {
        let (done, step) = g.as_ref().map(|s| (s.finished == s.threads.len(), s.step.wrapping_add(OS_PROGRESS.load(Ordering::Relaxed)))).unwrap_or((true, 0));
        if done {
          break;
        }
        let now = std::time::Instant::now();
        // an operation that keeps reaching yield points but has been running for longer than the
        // watchdog period (legitimate ones take milliseconds) is crawling through an endless or
        // absurdly long loop: the same verdict as no progress at all
        let crawling = g.as_ref().map(|s| !s.free_run && s.current < s.threads.len() && s.threads[s.current].status != Status::Finished && now.duration_since(s.threads[s.current].op_started) >= OP_WALL_LIMIT.min(watchdog)).unwrap_or(false) || (!os_policy && now.duration_since(run_started) >= RUN_WALL_LIMIT.min(watchdog * 6));
        if crawling {
          watchdog_fired = true;
          fire_reason = "an operation (or the run as a whole) keeps reaching yield points but has exceeded its wall-clock limit";
          break;
        }
        if step != last_step {
          last_step = step;
          last_change = now;
        } else if now.duration_since(last_change) >= watchdog {
          watchdog_fired = true;
          break;
        } else if now.duration_since(last_change) >= Duration::from_millis(250) {
          // no progress: is the baton holder asleep inside a primitive the seam does not see?
          if let Some(st) = g.as_mut() {
            if !st.free_run && st.current < st.threads.len() {
              let tid = st.threads[st.current].os_tid;
              let state = std::fs::read_to_string(format!("/proc/self/task/{}/stat", tid)).ok().and_then(|t| t.rsplit(')').next().map(|r| r.trim().chars().next().unwrap_or('?'))).unwrap_or('?');
              // asleep in the kernel: blocked on a primitive outside the seam. Or, after a full
              // second, still running without reaching a yield point: possibly spinning on
              // something a parked thread would provide. Either way: hand the run to the OS; a
              // real endless loop stays stuck and is reported by the watchdog as before.
              if state == 'S' || state == 'D' || now.duration_since(last_change) >= Duration::from_millis(1000) {
                st.free_run = true;
                st.wake_all();
                FREE_RUN_EVENTS.fetch_add(1, Ordering::SeqCst);
              }
            }
          }
        }
        let (ng, _) = self.cv.wait_timeout(g, Duration::from_millis(100)).unwrap_or_else(|e| e.into_inner());
        g = ng;
      }
    }
    if watchdog_fired {
      FREE_FAST.store(false, Ordering::SeqCst);
      let g = self.lock();
      let st = g.as_ref().unwrap();
      let cur = st.current;
      let op = if cur < st.threads.len() { st.threads[cur].op } else { 0 };
      return RunResult { trace: st.trace.clone(), trace_owner: st.trace_owner.clone(), log_hash: st.log_hash, log: st.log.clone(), abort: Some(format!("watchdog: thread {} operation {}: {} (watchdog {:?}, operation limit {:?}, run limit {:?}; not blocked on a lock of the seam)", cur, op, fire_reason, watchdog, OP_WALL_LIMIT.min(watchdog), RUN_WALL_LIMIT.min(watchdog * 6))), diverged: st.diverged, stats: st.stats.clone(), watchdog: true, sched_states: Vec::new(), lock_addrs: st.lock_addr.clone(), free_run: st.free_run };
    }
    for h in handles {
      let _ = h.join();
    }
    FREE_FAST.store(false, Ordering::SeqCst);
    let st = self.lock().take().unwrap();
    RunResult { trace: st.trace, trace_owner: st.trace_owner, log_hash: st.log_hash, log: st.log, abort: st.abort, diverged: st.diverged, stats: st.stats, watchdog: false, sched_states: st.state_samples, lock_addrs: st.lock_addr, free_run: st.free_run }
  }
}
