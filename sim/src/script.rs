//! A run script: the operations of every simulated caller thread plus everything else that
//! decides the run (policy, schedule seed or recorded trace, hash seed, reset-before flag).
//! The text form is what replay files contain; generation and replay share the executor.

use crate::query::Query;
use crate::sched::Policy;

#[derive(Clone, Debug, PartialEq)]
pub enum Op {
  /// evaluate a query; if `stop` and the query is refused the thread abandons its script
  Q { q: Query, stop: bool },
  /// evaluate the same query `times` times in a row (hot key); only the last answer is recorded
  QRep { q: Query, times: u64 },
  /// `times` evaluations cycling through `qs` (alternating arguments at full speed)
  QAlt { qs: Vec<Query>, times: u64 },
  /// slot := a value of kind `kind` (index into handles::HKINDS) built from `args`
  HNew { slot: usize, kind: usize, args: Vec<i64> },
  /// slot := slot.next(n)
  HNext { slot: usize, n: i64 },
  /// to := from.clone()
  HClone { from: usize, to: usize },
  /// call getter g on the value in slot
  HGet { slot: usize, g: i64 },
  /// to := a value contained in / computed from the one in `from` (handles::Handle::derive)
  HDay { from: usize, to: usize, variant: usize },
  /// to := (day in from).get_hours()[k]
  HHour { from: usize, to: usize, k: usize },
  /// compare the values in two slots (is_before / is_after / ==)
  HCmp { a: usize, b: usize },
  /// a clone of the value in my slot goes into exchange slot g of the run (shared by all threads)
  HPut { slot: usize, g: usize },
  /// the value in exchange slot g (made, stepped and asked on whichever thread put it there)
  /// moves into my slot: a value that crosses threads
  HTake { slot: usize, g: usize },
}

pub const SLOTS: usize = 4;
/// exchange slots per run
pub const GSLOTS: usize = 4;

#[derive(Clone, Debug)]
pub struct RunScript {
  pub threads: Vec<Vec<Op>>,
  pub policy: Policy,
  pub sched_seed: u64,
  pub hash_seed: u64,
  pub reset: bool,
  pub fault_free: bool,
  /// every `alloc_period`-th allocation made by library code is a yield point (0 = off)
  pub alloc_period: u32,
}

impl Op {
  pub fn to_text(&self) -> String {
    match self {
      Op::Q { q, stop } => format!("{} {}", if *stop { "q!" } else { "q" }, q.key()),
      Op::QRep { q, times } => format!("q*{} {}", times, q.key()),
      Op::QAlt { qs, times } => format!("qalt*{} {}", times, qs.iter().map(|q| q.key()).collect::<Vec<_>>().join(" | ")),
      Op::HNew { slot, kind, args } => {
        let mut s = format!("hnew {} {}", slot, crate::handles::HKINDS[*kind]);
        for a in args {
          s.push_str(&format!(" {}", a));
        }
        s
      }
      Op::HNext { slot, n } => format!("hnext {} {}", slot, n),
      Op::HPut { slot, g } => format!("hput {} {}", slot, g),
      Op::HTake { slot, g } => format!("htake {} {}", slot, g),
      Op::HClone { from, to } => format!("hclone {} {}", from, to),
      Op::HGet { slot, g } => format!("hget {} {}", slot, g),
      Op::HDay { from, to, variant } => format!("{} {} {}", ["hday", "hday2", "hday3"][(*variant).min(2)], from, to),
      Op::HHour { from, to, k } => format!("hhour {} {} {}", from, to, k),
      Op::HCmp { a, b } => format!("hcmp {} {}", a, b),
    }
  }

  pub fn parse(tokens: &[&str]) -> Result<Op, String> {
    let num = |s: &str| -> Result<i64, String> { s.parse::<i64>().map_err(|e| format!("bad number {}: {}", s, e)) };
    match tokens.first().copied() {
      Some("q") | Some("q!") => Ok(Op::Q { q: Query::parse(&tokens[1..])?, stop: tokens[0] == "q!" }),
      Some(t) if t.starts_with("qalt*") => {
        let times = t[5..].parse::<u64>().map_err(|_| "bad repeat count".to_string())?.max(1);
        let mut qs = Vec::new();
        for part in tokens[1..].split(|x| *x == "|") {
          qs.push(Query::parse(part)?);
        }
        if qs.is_empty() {
          return Err("qalt: no query".to_string());
        }
        Ok(Op::QAlt { qs, times })
      }
      Some(t) if t.starts_with("q*") => Ok(Op::QRep { q: Query::parse(&tokens[1..])?, times: t[2..].parse::<u64>().map_err(|_| "bad repeat count".to_string())?.max(1) }),
      Some("hnew") => {
        if tokens.len() < 3 {
          return Err("hnew: too short".to_string());
        }
        let slot = num(tokens[1])? as usize;
        let kind = crate::handles::HKINDS.iter().position(|k| *k == tokens[2]).ok_or(format!("hnew: unknown kind {}", tokens[2]))?;
        let mut args = Vec::new();
        for t in &tokens[3..] {
          args.push(num(t)?);
        }
        if args.len() != crate::handles::HARITY[kind] || slot >= SLOTS {
          return Err("hnew: wrong arguments".to_string());
        }
        Ok(Op::HNew { slot, kind, args })
      }
      Some("hnext") if tokens.len() == 3 => Ok(Op::HNext { slot: (num(tokens[1])? as usize).min(SLOTS - 1), n: num(tokens[2])? }),
      Some("hclone") if tokens.len() == 3 => Ok(Op::HClone { from: (num(tokens[1])? as usize).min(SLOTS - 1), to: (num(tokens[2])? as usize).min(SLOTS - 1) }),
      Some("hday") | Some("hday2") | Some("hday3") if tokens.len() == 3 => Ok(Op::HDay { from: (num(tokens[1])? as usize).min(SLOTS - 1), to: (num(tokens[2])? as usize).min(SLOTS - 1), variant: ["hday", "hday2", "hday3"].iter().position(|x| *x == tokens[0]).unwrap_or(0) }),
      Some("hhour") if tokens.len() == 4 => Ok(Op::HHour { from: (num(tokens[1])? as usize).min(SLOTS - 1), to: (num(tokens[2])? as usize).min(SLOTS - 1), k: (num(tokens[3])? as usize).min(12) }),
      Some("hcmp") if tokens.len() == 3 => Ok(Op::HCmp { a: (num(tokens[1])? as usize).min(SLOTS - 1), b: (num(tokens[2])? as usize).min(SLOTS - 1) }),
      Some("hput") if tokens.len() == 3 => Ok(Op::HPut { slot: (num(tokens[1])? as usize).min(SLOTS - 1), g: (num(tokens[2])? as usize).min(GSLOTS - 1) }),
      Some("htake") if tokens.len() == 3 => Ok(Op::HTake { slot: (num(tokens[1])? as usize).min(SLOTS - 1), g: (num(tokens[2])? as usize).min(GSLOTS - 1) }),
      Some("hget") if tokens.len() == 3 => Ok(Op::HGet { slot: (num(tokens[1])? as usize).min(SLOTS - 1), g: num(tokens[2])? }),
      _ => Err(format!("unknown op: {:?}", tokens)),
    }
  }
}

pub fn trace_to_text(t: &[u8]) -> String {
  let mut s = String::new();
  for (i, x) in t.iter().enumerate() {
    if i > 0 {
      s.push('.');
    }
    s.push_str(&x.to_string());
  }
  s
}

impl RunScript {
  /// Text form. When `trace` is given the policy is written as the fixed trace (replayable
  /// without any random draw).
  pub fn to_text(&self, trace: Option<&[u8]>) -> String {
    let mut s = String::new();
    s.push_str(&format!("run threads={} policy={} sched={} hash={} reset={}", self.threads.len(), self.policy.name(), self.sched_seed, self.hash_seed, if self.reset { 1 } else { 0 }));
    if self.alloc_period > 0 {
      s.push_str(&format!(" alloc={}", self.alloc_period));
    }
    if let Some(t) = trace {
      s.push_str(&format!(" trace={}", trace_to_text(t)));
    } else if let Policy::Fixed(t) = &self.policy {
      s.push_str(&format!(" trace={}", trace_to_text(t)));
    }
    s.push('\n');
    for (t, ops) in self.threads.iter().enumerate() {
      for op in ops {
        s.push_str(&format!("t{} {}\n", t, op.to_text()));
      }
    }
    s.push_str("end\n");
    s
  }
}

/// Parse a sequence of runs from text. Lines starting with '#' and blank lines are ignored.
pub fn parse_runs(text: &str) -> Result<Vec<RunScript>, String> {
  let mut runs: Vec<RunScript> = Vec::new();
  let mut cur: Option<RunScript> = None;
  for (ln, line) in text.lines().enumerate() {
    let line = line.trim();
    if line.is_empty() || line.starts_with('#') {
      continue;
    }
    let tokens: Vec<&str> = line.split_whitespace().collect();
    let err = |m: String| format!("line {}: {}", ln + 1, m);
    if tokens[0] == "run" {
      if cur.is_some() {
        return Err(err("run inside run".to_string()));
      }
      let mut n = 1usize;
      let mut policy = Policy::Seq;
      let mut sched = 0u64;
      let mut hash = 0u64;
      let mut reset = false;
      let mut trace: Option<Vec<u8>> = None;
      let mut alloc_period = 0u32;
      for kv in &tokens[1..] {
        let (k, v) = kv.split_once('=').ok_or(err(format!("bad run attribute {}", kv)))?;
        match k {
          "threads" => n = v.parse().map_err(|_| err("threads".to_string()))?,
          "policy" => {
            policy = match v {
              "seq" => Policy::Seq,
              "rr" => Policy::RoundRobin,
              "rw" => Policy::RandomWalk,
              "fixed" => Policy::Fixed(Vec::new()),
              "os" => Policy::Os,
              "park" => Policy::Park,
              p if p.starts_with("pct") => Policy::Pct(p[3..].parse().map_err(|_| err("pct depth".to_string()))?),
              _ => return Err(err(format!("unknown policy {}", v))),
            }
          }
          "sched" => sched = v.parse().map_err(|_| err("sched".to_string()))?,
          "hash" => hash = v.parse().map_err(|_| err("hash".to_string()))?,
          "reset" => reset = v == "1",
          "alloc" => alloc_period = v.parse().map_err(|_| err("alloc".to_string()))?,
          "trace" => {
            let mut t = Vec::new();
            for x in v.split('.') {
              if !x.is_empty() {
                t.push(x.parse::<u8>().map_err(|_| err("trace".to_string()))?);
              }
            }
            trace = Some(t);
          }
          _ => return Err(err(format!("unknown run attribute {}", k))),
        }
      }
      if n == 0 || n > 64 {
        return Err(err("threads out of range".to_string()));
      }
      if let Some(t) = trace {
        policy = Policy::Fixed(t);
      }
      cur = Some(RunScript { threads: vec![Vec::new(); n], policy, sched_seed: sched, hash_seed: hash, reset, fault_free: false, alloc_period });
    } else if tokens[0] == "end" {
      match cur.take() {
        Some(r) => runs.push(r),
        None => return Err(err("end without run".to_string())),
      }
    } else if tokens[0].starts_with('t') {
      let r = cur.as_mut().ok_or(err("op outside run".to_string()))?;
      let t: usize = tokens[0][1..].parse().map_err(|_| err("thread id".to_string()))?;
      if t >= r.threads.len() {
        return Err(err("thread id out of range".to_string()));
      }
      let op = Op::parse(&tokens[1..]).map_err(err)?;
      r.threads[t].push(op);
    } else {
      return Err(err(format!("unknown line: {}", line)));
    }
  }
  if cur.is_some() {
    return Err("unterminated run".to_string());
  }
  Ok(runs)
}
