#!/usr/bin/env python3
"""Applies every seeded change under /verif/seeded to /repo in turn, runs the C10 quick check
against it, verifies that the first replay reproduces on the changed tree and no longer does after
reverting, and reverts. Expected: exit 1 for every change. Results: selfcheck/seeded_results.json
Usage: run_seeded.py [name-substring ...]"""
import glob, json, os, subprocess, sys, time
HERE = os.path.dirname(os.path.abspath(__file__))
ROOT = os.path.dirname(HERE)
args = sys.argv[1:]
res_path = os.path.join(HERE, 'seeded_results.json')
results = json.load(open(res_path)) if os.path.exists(res_path) else {}

def sh(cmd, cwd=None, timeout=3600):
    return subprocess.run(cmd, cwd=cwd, capture_output=True, text=True, timeout=timeout, env=dict(os.environ, CARGO_NET_OFFLINE='true'))

def clean():
    sh(['git', '-C', '/repo', 'checkout', '--', '.'])

if sh(['git', '-C', '/repo', 'status', '--porcelain', '--untracked-files=no']).stdout.strip():
    sys.exit('/repo has uncommitted changes; refusing')
# the check rewrites evidence/ on every run; keep the files of the unchanged tree and put them back at the end
EV = {f: open(f).read() for f in glob.glob(os.path.join(ROOT, 'evidence', 'C10*.json')) if 'thorough' not in f}
bad = 0
for d in sorted(glob.glob(os.path.join(ROOT, 'seeded', 'S*')), key=lambda p: int(os.path.basename(p).split('-')[0][1:])):
    name = os.path.basename(d)
    if args and not any(a in name for a in args):
        continue
    t0 = time.time()
    if sh(['git', '-C', '/repo', 'apply', os.path.join(d, 'patch.diff')]).returncode != 0:
        print('%-52s patch does not apply' % name); bad += 1; continue
    try:
        c = sh(['python3', os.path.join(ROOT, 'check.py'), 'C10', '--tier', 'quick'], timeout=3000)
        lines = [l for l in c.stdout.splitlines() if l.startswith(('VIOLATION', 'KNOWN-FINDING', 'HARNESS-ERROR', '  obligation'))]
        replay_ok = None
        reps = sorted(glob.glob(os.path.join(ROOT, 'replays', '*.json')))
        if c.returncode == 1 and reps:
            r1 = sh(['python3', os.path.join(ROOT, 'check.py'), 'C10', '--replay', reps[0]], timeout=1800)
            clean()
            r0 = sh(['python3', os.path.join(ROOT, 'check.py'), 'C10', '--replay', reps[0]], timeout=1800)
            replay_ok = (r1.returncode == 1 and 'VIOLATION property=C10' in r1.stdout and r0.returncode == 0)
        for f in reps:
            os.remove(f)
    finally:
        clean()
    ok = c.returncode == 1 and replay_ok is not False
    bad += 0 if ok else 1
    results[name] = {'check_exit': c.returncode, 'ok': ok, 'seconds': round(time.time() - t0, 1), 'replay_reproduces_and_vanishes_after_revert': replay_ok, 'lines': [l[:260] for l in lines[:4]]}
    print('%-52s check exit=%d replay=%s %s  %.0fs' % (name, c.returncode, replay_ok, 'ok' if ok else '<<<<<< MISSED', time.time() - t0), flush=True)
    json.dump(results, open(res_path, 'w'), indent=1, ensure_ascii=False)
for f, t in EV.items():
    open(f, 'w').write(t)
sys.exit(1 if bad else 0)
