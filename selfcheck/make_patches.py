#!/usr/bin/env python3
"""Regenerates the sensitivity mutants (must be caught) and neutral variants (must stay silent)
as patches against /repo HEAD. Each entry is a list of (file, old, new) replacements.
Usage: make_patches.py   -> writes selfcheck/mutants/*.diff and selfcheck/neutral/*.diff
/repo is left clean."""
import os, subprocess, sys
HERE = os.path.dirname(os.path.abspath(__file__))
L = 'src/tyme/lunar.rs'
E = 'src/tyme/eightchar/mod.rs'
S = 'src/tyme/solar.rs'

KEY = 'let key: String = format!("{}_{}", year, month);'
LOCK = 'let mut map: MutexGuard<HashMap<String, Vec<f64>>> = LUNAR_MONTH_CACHE.lock().unwrap_or_else(|e| e.into_inner());'
CACHE_DECL = 'static ref LUNAR_MONTH_CACHE: Mutex<HashMap<String, Vec<f64>>> = Mutex::new(HashMap::new());'
FROM_YM_BODY_OLD = '''    let instance: Self;
    let key: String = format!("{}_{}", year, month);
    let mut map: MutexGuard<HashMap<String, Vec<f64>>> = LUNAR_MONTH_CACHE.lock().unwrap_or_else(|e| e.into_inner());
    let vec: Option<&Vec<f64>> = map.get(&key);
    match vec {
      Some(v) => instance = Self::from_cache((*v).to_owned()),
      None => {
        instance = Self::new(year, month).unwrap();
        let mut l: Vec<f64> = Vec::new();
        l.push(instance.get_year() as f64);
        l.push(instance.get_month_with_leap() as f64);
        l.push(instance.get_day_count() as f64);
        l.push(instance.get_index_in_year() as f64);
        l.push(instance.get_first_julian_day().get_day());
        map.insert(key, l);
      }
    }
    return instance;
'''
RECORD = '''        let mut l: Vec<f64> = Vec::new();
        l.push(instance.get_year() as f64);
        l.push(instance.get_month_with_leap() as f64);
        l.push(instance.get_day_count() as f64);
        l.push(instance.get_index_in_year() as f64);
        l.push(instance.get_first_julian_day().get_day());
'''

MUTANTS = {
 # the four defects of the pinned tree (reverse of the fix: commits)
 'm01_key_undelimited': [(L, KEY, 'let key: String = format!("{}{}", year, month);')],
 'm05a_month_memo_poison': [(L, LOCK, LOCK.replace('.unwrap_or_else(|e| e.into_inner())', '.unwrap()'))],
 'm05b_eight_char_provider_poison': [(L, 'EIGHT_CHAR_PROVIDER.lock().unwrap_or_else(|e| e.into_inner()).get_eight_char', 'EIGHT_CHAR_PROVIDER.lock().unwrap().get_eight_char')],
 'm05c_child_limit_provider_poison': [(E, 'CHILD_LIMIT_PROVIDER.lock().unwrap_or_else(|e| e.into_inner()).get_info', 'CHILD_LIMIT_PROVIDER.lock().unwrap().get_info')],
 # leap twins alias
 'm02_key_abs_month': [(L, KEY, 'let key: String = format!("{}_{}", year, month.abs());')],
 # numeric key year*12+month
 'm03_key_year12': [(L, KEY, 'let key: String = format!("{}", year * 12 + month);')],
 # hit path loses the leap flag's effect on index (only on cache hits)
 'm04_from_cache_swaps_fields': [(L, '      day_count: cache[2] as usize,\n      index_in_year: cache[3] as usize,', '      day_count: cache[2] as usize,\n      index_in_year: (cache[1] as isize).abs() as usize - 1,')],
 # two-phase insert: a placeholder record is visible between two critical sections
 'm06_two_phase_placeholder': [(L, FROM_YM_BODY_OLD, '''    let key: String = format!("{}_{}", year, month);
    {
      let mut map: MutexGuard<HashMap<String, Vec<f64>>> = LUNAR_MONTH_CACHE.lock().unwrap_or_else(|e| e.into_inner());
      if let Some(v) = map.get(&key) {
        return Self::from_cache((*v).to_owned());
      }
      // reserve the slot first so that concurrent callers do not compute the same month twice
      map.insert(key.clone(), vec![year as f64, month as f64, 29.0, 0.0, 0.0]);
    }
    let created: Result<Self, String> = Self::new(year, month);
    let mut map: MutexGuard<HashMap<String, Vec<f64>>> = LUNAR_MONTH_CACHE.lock().unwrap_or_else(|e| e.into_inner());
    match created {
      Ok(instance) => {
''' + RECORD.replace('        ', '          ') + '''        map.insert(key, l);
        instance
      }
      Err(e) => {
        map.remove(&key);
        drop(map);
        panic!("{}", e)
      }
    }
''')],
 # hidden memo in another module, undelimited key, unknown to the reset hook
 'm08_solar_term_memo': [(S, '''  pub fn from_index(year: isize, index: isize) -> Self {
    let size: isize = SOLAR_TERM_NAMES.len() as isize;''', '''  pub fn from_index(year: isize, index: isize) -> Self {
    lazy_static::lazy_static! {
      static ref TERM_MEMO: std::sync::Mutex<std::collections::HashMap<String, (isize, f64)>> = std::sync::Mutex::new(std::collections::HashMap::new());
    }
    let memo_key: String = format!("{}{}", year, index);
    if let Some((y, jd)) = TERM_MEMO.lock().unwrap().get(&memo_key).cloned() {
      return Self {
        parent: LoopTyme::from_index(SOLAR_TERM_NAMES.to_vec().iter().map(|x| x.to_string()).collect(), index),
        year: y,
        cursory_julian_day: jd,
      };
    }
    let made: Self = Self::from_index_uncached(year, index);
    TERM_MEMO.lock().unwrap().insert(memo_key, (made.year, made.cursory_julian_day));
    made
  }

  fn from_index_uncached(year: isize, index: isize) -> Self {
    let size: isize = SOLAR_TERM_NAMES.len() as isize;''')],
 # lock-order inversion: month memo lock -> provider lock, while get_eight_char goes provider -> month memo
 'm09_lock_order_cycle': [(L, '      None => {\n        instance = Self::new(year, month).unwrap();', '      None => {\n        if month < 0 {\n          // a leap month is about to be published: make sure no eight-char computation is half way through\n          drop(EIGHT_CHAR_PROVIDER.lock().unwrap_or_else(|e| e.into_inner()));\n        }\n        instance = Self::new(year, month).unwrap();')],
 # bounded memo whose eviction leaves a stale index entry
 'm10_bounded_memo_stale_eviction': [(L, '        map.insert(key, l);\n      }\n    }\n    return instance;', '''        if map.len() >= 48 {
          // bounded: recycle the record of some old entry instead of growing
          let victim: String = map.keys().next().unwrap().clone();
          let rec: Vec<f64> = map.get(&victim).unwrap().clone();
          map.insert(key, rec);
          map.remove(&victim);
        } else {
          map.insert(key, l);
        }
      }
    }
    return instance;''')],
 # a year present in two columns of the leap table: the answer depends on hash iteration order
 'm11_leap_year_in_two_columns': [(L, '      map.insert(i + 1, l);\n    }\n    map', '      map.insert(i + 1, l);\n    }\n    map.get_mut(&7).unwrap().push(3358);\n    map')],
 # an unsynchronised one-entry fast path in front of the lock (engine A cannot see it: no seam event; Miri reports the data race)
 'm12_static_mut_last_month': [(L, '''  pub fn from_ym(year: isize, month: isize) -> Self {
    let instance: Self;''', '''  pub fn from_ym(year: isize, month: isize) -> Self {
    static mut LAST_MONTH: (isize, isize, [f64; 5]) = (isize::MIN, 0, [0.0; 5]);
    #[allow(static_mut_refs)]
    unsafe {
      if LAST_MONTH.0 == year && LAST_MONTH.1 == month {
        return Self::from_cache(LAST_MONTH.2.to_vec());
      }
    }
    let instance: Self = Self::from_ym_locked(year, month);
    #[allow(static_mut_refs)]
    unsafe {
      LAST_MONTH = (year, month, [instance.get_year() as f64, instance.get_month_with_leap() as f64, instance.get_day_count() as f64, instance.get_index_in_year() as f64, instance.get_first_julian_day().get_day()]);
    }
    instance
  }

  fn from_ym_locked(year: isize, month: isize) -> Self {
    let instance: Self;''')],
 # a refused year leaves a marker that refuses the next valid year query
 'm13_refused_year_sticky': [(L, '''  pub fn from_ym(year: isize, month: isize) -> Self {
    let instance: Self;''', '''  pub fn from_ym(year: isize, month: isize) -> Self {
    if month == 0 {
      // remember that this caller sends garbage; the next lookup skips the memo
      LUNAR_MONTH_CACHE.lock().unwrap_or_else(|e| e.into_inner()).insert("dirty".to_string(), vec![year as f64, 1.0, 29.0, 0.0, 0.0]);
    }
    if let Some(v) = LUNAR_MONTH_CACHE.lock().unwrap_or_else(|e| e.into_inner()).remove("dirty") {
      if month != 0 {
        return Self::from_cache(v);
      }
      LUNAR_MONTH_CACHE.lock().unwrap_or_else(|e| e.into_inner()).insert("dirty".to_string(), v);
    }
    let instance: Self;''')],
}

NEUTRAL = {
 # memo bypassed
 'n01_memo_bypassed': [(L, FROM_YM_BODY_OLD, '    return Self::new(year, month).unwrap();\n')],
 # thread-local memo instead of the shared one
 'n02_thread_local_memo': [(L, FROM_YM_BODY_OLD, '''    thread_local! {
      static LOCAL: RefCell<std::collections::HashMap<(isize, isize), LunarMonth>> = RefCell::new(std::collections::HashMap::new());
    }
    if let Some(m) = LOCAL.with(|c| c.borrow().get(&(year, month)).cloned()) {
      return m;
    }
    let instance: Self = Self::new(year, month).unwrap();
    LOCAL.with(|c| c.borrow_mut().insert((year, month), instance));
    return instance;
''')],
 # compute outside the lock, duplicate insert allowed
 'n04_compute_outside_lock': [(L, FROM_YM_BODY_OLD, '''    let key: String = format!("{}_{}", year, month);
    {
      let map: MutexGuard<HashMap<String, Vec<f64>>> = LUNAR_MONTH_CACHE.lock().unwrap_or_else(|e| e.into_inner());
      if let Some(v) = map.get(&key) {
        return Self::from_cache((*v).to_owned());
      }
    }
    let instance: Self = Self::new(year, month).unwrap();
''' + RECORD.replace('        ', '    ') + '''    LUNAR_MONTH_CACHE.lock().unwrap_or_else(|e| e.into_inner()).insert(key, l);
    return instance;
''')],
 # different refusal messages
 'n06_refusal_messages': [(L, 'return Err(format!("illegal lunar month: {}", month));', 'return Err(format!("lunar month out of range: {} (year {})", month, year));'), (L, 'Err(format!("illegal lunar year: {}", year))', 'Err(format!("lunar year {} is not supported", year))')],
 # bounded memo with correct eviction
 'n07_bounded_memo_correct': [(L, '        map.insert(key, l);\n      }\n    }\n    return instance;', '        if map.len() >= 48 {\n          map.clear();\n        }\n        map.insert(key, l);\n      }\n    }\n    return instance;')],
 # tuple-like key with another delimiter and padded fields
 'n08_other_key_format': [(L, KEY, 'let key: String = format!("{:+06}|{:+03}", year, month);')],
 # RwLock with double-checked insert (a primitive the seam does not wrap)
 'n03_rwlock_double_checked': [(L, FROM_YM_BODY_OLD, '''    lazy_static! {
      static ref RW: std::sync::RwLock<std::collections::HashMap<(isize, isize), LunarMonth>> = std::sync::RwLock::new(std::collections::HashMap::new());
    }
    if let Some(m) = RW.read().unwrap_or_else(|e| e.into_inner()).get(&(year, month)) {
      return *m;
    }
    let instance: Self = Self::new(year, month).unwrap();
    let mut w = RW.write().unwrap_or_else(|e| e.into_inner());
    let kept: Self = *w.entry((year, month)).or_insert(instance);
    return kept;
''')],
 # the eight-char provider behind a plain std mutex that the seam does not wrap, held across the month memo lock
 'n10_foreign_mutex_provider': [(L, 'static ref EIGHT_CHAR_PROVIDER: Arc<Mutex<Box<dyn EightCharProvider + Sync + Send + \'static>>> = Arc::new(Mutex::new(Box::new(DefaultEightCharProvider::new())));', 'static ref EIGHT_CHAR_PROVIDER: Arc<std::sync::Mutex<Box<dyn EightCharProvider + Sync + Send + \'static>>> = Arc::new(std::sync::Mutex::new(Box::new(DefaultEightCharProvider::new())));')],
 # lock released around the computation, re-acquired for the insert, panic-safe
 'n09_unlock_during_compute': [(L, '        instance = Self::new(year, month).unwrap();\n        let mut l', '        drop(map);\n        instance = Self::new(year, month).unwrap();\n        map = LUNAR_MONTH_CACHE.lock().unwrap_or_else(|e| e.into_inner());\n        let mut l'), (L, '    let vec: Option<&Vec<f64>> = map.get(&key);\n    match vec {\n      Some(v) => instance = Self::from_cache((*v).to_owned()),', '    let vec: Option<Vec<f64>> = map.get(&key).cloned();\n    match vec {\n      Some(v) => instance = Self::from_cache(v),')],
}

def run(cmd):
    return subprocess.run(cmd, capture_output=True, text=True)

def make(name, edits, outdir):
    for f, old, new in edits:
        p = '/repo/' + f
        s = open(p, encoding='utf-8').read()
        if s.count(old) != 1:
            run(['git', '-C', '/repo', 'checkout', '--', '.'])
            sys.exit('%s: anchor occurs %d times in %s: %r' % (name, s.count(old), f, old[:80]))
        open(p, 'w', encoding='utf-8').write(s.replace(old, new))
    d = run(['git', '-C', '/repo', 'diff']).stdout
    run(['git', '-C', '/repo', 'checkout', '--', '.'])
    os.makedirs(outdir, exist_ok=True)
    open(os.path.join(outdir, name + '.diff'), 'w').write(d)
    print(name, len(d.splitlines()), 'lines')

if run(['git', '-C', '/repo', 'status', '--porcelain', '--untracked-files=no']).stdout.strip():
    sys.exit('/repo has uncommitted changes; refusing')
for k, v in MUTANTS.items():
    make(k, v, os.path.join(HERE, 'mutants'))
for k, v in NEUTRAL.items():
    make(k, v, os.path.join(HERE, 'neutral'))
