#!/usr/bin/env python3
"""Applies each sensitivity mutant / neutral variant to /repo in turn, checks that it compiles and
passes the repository's own test suite, runs the C10 quick check against it and reverts.
Expected: every mutant -> exit 1 (VIOLATION), every neutral variant -> exit 0.
Usage: run.py [--no-tests] [name-substring ...]      Results: selfcheck/results.json"""
import glob, json, os, subprocess, sys, time
HERE = os.path.dirname(os.path.abspath(__file__))
ROOT = os.path.dirname(HERE)
args = [a for a in sys.argv[1:] if not a.startswith('--')]
skip_tests = '--no-tests' in sys.argv
res_path = os.path.join(HERE, 'results.json')
results = json.load(open(res_path)) if os.path.exists(res_path) else {}

def sh(cmd, cwd=None, timeout=3600):
    return subprocess.run(cmd, cwd=cwd, capture_output=True, text=True, timeout=timeout, env=dict(os.environ, CARGO_NET_OFFLINE='true'))

def clean():
    sh(['git', '-C', '/repo', 'checkout', '--', '.'])

if sh(['git', '-C', '/repo', 'status', '--porcelain', '--untracked-files=no']).stdout.strip():
    sys.exit('/repo has uncommitted changes; refusing')
import glob as _g
EV = {f: open(f).read() for f in _g.glob('/verif/evidence/C10*.json') if 'thorough' not in f}  # evidence of the unchanged tree, restored at the end
bad = 0
for kind, want in (('mutants', 1), ('neutral', 0)):
    for path in sorted(glob.glob(os.path.join(HERE, kind, '*.diff'))):
        name = os.path.basename(path)[:-5]
        if args and not any(a in name for a in args):
            continue
        t0 = time.time()
        if sh(['git', '-C', '/repo', 'apply', path]).returncode != 0:
            print('%-40s patch does not apply' % name); bad += 1; continue
        try:
            # with --no-tests the result of the earlier run against the same patch is kept
            tests = results.get(name, {}).get('tests', 'skipped') if skip_tests else 'skipped'
            if not skip_tests:
                # the repository's own baseline: one process per test (nextest), as in /root/.vp/BASELINE.json
                try:
                    t = sh(['cargo', 'nextest', 'run', '--workspace', '--no-fail-fast', '--offline', '--test-threads', '8'], cwd='/repo', timeout=900)
                    out = t.stdout + t.stderr
                    tests = 'pass' if t.returncode == 0 and '272 passed' in out else 'FAIL'
                except subprocess.TimeoutExpired:
                    tests = 'FAIL'
            c = sh(['python3', os.path.join(ROOT, 'check.py'), 'C10', '--tier', 'quick'], timeout=3000)
            lines = [l for l in c.stdout.splitlines() if l.startswith(('VIOLATION', 'KNOWN-FINDING', 'HARNESS-ERROR', '  obligation'))]
            # a reported violation must replay exactly: exit 1 on the changed tree, exit 0 after reverting
            replay_ok = None
            reps = sorted(glob.glob(os.path.join(ROOT, 'replays', '*.json')))
            if c.returncode == 1 and reps and not any('miri' in r for r in reps[:1]):
                r1 = sh(['python3', os.path.join(ROOT, 'check.py'), 'C10', '--replay', reps[0]], timeout=900)
                clean()
                r0 = sh(['python3', os.path.join(ROOT, 'check.py'), 'C10', '--replay', reps[0]], timeout=900)
                replay_ok = (r1.returncode == 1 and 'VIOLATION property=C10' in r1.stdout and r0.returncode == 0)
            for f in reps:
                os.remove(f)
        finally:
            clean()
        # a mutant that the repository's own tests also catch is still a valid sensitivity probe;
        # a neutral variant must pass them
        ok = (c.returncode == want) and (tests != 'FAIL' or kind == 'mutants') and replay_ok is not False
        bad += 0 if ok else 1
        results[name] = {'kind': kind, 'tests': tests, 'check_exit': c.returncode, 'expected_exit': want, 'ok': ok, 'seconds': round(time.time() - t0, 1), 'replay_reproduces_and_vanishes_after_revert': replay_ok, 'lines': lines[:6]}
        print('%-40s tests=%-7s check exit=%d (want %d) replay=%s %s  %.0fs' % (name, tests, c.returncode, want, replay_ok, 'ok' if ok else '<<<<<< UNEXPECTED', time.time() - t0))
        for l in lines[:4]:
            print('      ' + l[:230])
        json.dump(results, open(res_path, 'w'), indent=1, ensure_ascii=False)
for f in glob.glob(os.path.join(ROOT, 'replays', '*.json')):
    os.remove(f)
for f, t in EV.items():
    open(f, 'w').write(t)
sys.exit(1 if bad else 0)
