#!/usr/bin/env python3
"""Driver of the C10 deterministic-simulation check for tyme4rs (see DESIGN.md).

  check.py C10 [--tier quick|thorough]   run the check (env VERIF_SEED, VERIF_TIER honoured)
  check.py C10 --replay PATH             replay a violation file in fresh processes
  check.py selftest-determinism [N]      prove the simulator deterministic on N seeds
  check.py try-script FILE KEY           debugging: does FILE show a wrong answer for KEY?

Exit codes: 0 property held on everything explored; 1 violation (line `VIOLATION property=C10
replay=<path>` on stdout); 2 harness error (never a verdict about the property).
"""
import json
import os
import re
import shutil
import subprocess
import sys
import time

ROOT = os.path.dirname(os.path.abspath(__file__))
SIM_DIR = os.path.join(ROOT, "sim")
BIN = os.path.join(SIM_DIR, "target", "release", "tyme-sim")
MIRI_DIR = os.path.join(ROOT, "miri")
EVIDENCE = os.path.join(ROOT, "evidence", "C10.json")
REPLAYS = os.path.join(ROOT, "replays")
KNOWN = os.path.join(ROOT, "known_findings.json")
DEFAULT_SEED = 20260926
NPROC = os.cpu_count() or 16

TIERS = {
    # explore: list of (first worker id, workers, runs per worker, concurrency bias %, restart-before-run %)
    "quick": dict(explore=[(0, 10, 3000, 30, 75), (50, 1, 2000, 30, 10), (60, 1, 2000, 30, 1), (61, 1, 1200, 70, 0, 9000), (62, 1, 800, 70, 0, 70000), (100, 4, 1400, 90, 75)], seconds_cap=90, sweeps=1, hash_orders=8, determinism_runs=150, miri_seeds=0, max_minimise=3, fresh_sample=48, hot_keys=2, stress=(300, 6, 24), longrun=[(2, 200000, 0, "0/1"), (2, 100000, 0, "3/4")]),
    "thorough": dict(explore=[(0, 10, 3000, 30, 75), (50, 1, 2000, 30, 10), (60, 1, 2000, 30, 1), (61, 1, 1200, 70, 0, 9000), (62, 1, 1200, 70, 0, 70000), (100, 4, 1400, 90, 75), (1000, 10, 40000, 30, 75), (1050, 1, 30000, 30, 10), (1060, 1, 30000, 30, 1), (1061, 1, 20000, 70, 0, 20000), (1062, 1, 20000, 70, 0, 140000), (1063, 1, 20000, 70, 0, 600000), (2000, 4, 12000, 90, 75)], seconds_cap=540, sweeps=8, hash_orders=64, determinism_runs=400, miri_seeds=16, max_minimise=6, fresh_sample=256, hot_keys=8, stress=(300, 8, 150), longrun=[(4, 1200000, 1, "0/1"), (2, 600000, 0, "3/4")]),
}


def env():
    e = dict(os.environ)
    e["CARGO_NET_OFFLINE"] = "true"
    e.pop("RUSTFLAGS", None)
    return e


def tlog(msg):
    if os.environ.get("VERIF_TIMING"):
        print("[%7.1fs] %s" % (time.time() - T_START, msg), flush=True)


T_START = time.time()


def harness_error(msg):
    print("HARNESS-ERROR: " + msg, flush=True)
    sys.exit(2)


def build():
    t0 = time.time()
    p = subprocess.run(["cargo", "build", "--release", "--offline"], cwd=SIM_DIR, env=env(), stdout=subprocess.PIPE, stderr=subprocess.STDOUT, text=True)
    if p.returncode != 0 or not os.path.exists(BIN):
        print(p.stdout[-4000:])
        harness_error("cannot build the simulator against /repo with feature 'verif' (cargo build failed)")
    return time.time() - t0


# ---------------------------------------------------------------------------------------------
# scripts

def parse_script(text):
    runs = []
    cur = None
    for line in text.splitlines():
        line = line.strip()
        if not line or line.startswith("#"):
            continue
        tok = line.split()
        if tok[0] == "run":
            cur = {"attrs": dict(kv.split("=", 1) for kv in tok[1:]), "ops": []}
        elif tok[0] == "end":
            runs.append(cur)
            cur = None
        else:
            cur["ops"].append((int(tok[0][1:]), " ".join(tok[1:])))
    return runs


def render_script(runs):
    out = []
    for r in runs:
        tids = sorted(set(t for t, _ in r["ops"]))
        remap = {t: i for i, t in enumerate(tids)}
        a = dict(r["attrs"])
        a["threads"] = str(max(1, len(tids)))
        if a.get("trace"):
            # decisions that chose a thread which no longer exists are dropped, the others renumbered
            a["trace"] = ".".join(str(remap[int(c)]) for c in a["trace"].split(".") if c != "" and int(c) in remap)
        order = ["threads", "policy", "sched", "hash", "reset", "trace"]
        out.append("run " + " ".join("%s=%s" % (k, a[k]) for k in order if k in a))
        for t, op in r["ops"]:
            out.append("t%d %s" % (remap[t], op))
        out.append("end")
    return "\n".join(out) + "\n"


def count_ops(runs):
    return sum(len(r["ops"]) for r in runs)


class Sim:
    """Runs the worker binary in fresh processes."""

    def __init__(self, workdir):
        self.workdir = workdir
        self.cold_cache = {}
        self.replays = 0
        os.makedirs(workdir, exist_ok=True)

    def cold(self, key):
        if key not in self.cold_cache:
            p = subprocess.run([BIN, "single"] + key.split(), stdout=subprocess.PIPE, stderr=subprocess.PIPE, text=True, timeout=120)
            m = re.match(r"S (\S) ([0-9a-f]{16}) (.*?) ## (.*)$", p.stdout.strip(), re.S)
            if not m:
                harness_error("cold evaluation of %r failed: %s %s" % (key, p.stdout[-300:], p.stderr[-300:]))
            self.cold_cache[key] = (m.group(1), m.group(2), m.group(4))
        return self.cold_cache[key]

    def replay(self, text, log=False, watchdog=30):
        self.replays += 1
        path = os.path.join(self.workdir, "cand_%d.script" % os.getpid())
        with open(path, "w") as f:
            f.write(text)
        cmd = [BIN, "replay", "--script", path, "--watchdog", str(watchdog)]
        if log:
            cmd.append("--log")
        p = subprocess.run(cmd, stdout=subprocess.PIPE, stderr=subprocess.PIPE, text=True, timeout=300)
        res = {"runs": [], "evals": [], "news": {}, "rc": p.returncode, "raw": p.stdout, "log": []}
        for line in p.stdout.splitlines():
            if line.startswith("RUN "):
                m = re.match(r"RUN (\d+) threads=(\d+) steps=(\d+) log=(\S+) diverged=(\d) trace=(\S*) owners=(\S*) abort=(.*)$", line)
                owners = [tuple(int(x) for x in o.split(":")) for o in m.group(7).split(".") if o]
                res["runs"].append({"i": int(m.group(1)), "steps": int(m.group(3)), "log": m.group(4), "diverged": m.group(5) == "1", "trace": m.group(6), "owners": owners, "abort": None if m.group(8) == "-" else m.group(8)})
            elif line.startswith("E ") or line.startswith("N "):
                head, _, text_ = line.partition(" ## ")
                tok = head.split(" ")
                rec = {"run": int(tok[1]), "tid": int(tok[2]), "op": int(tok[3]), "class": tok[4], "digest": tok[5], "key": " ".join(t for t in tok[6:] if t != "@handle"), "handle": "@handle" in tok[6:], "text": text_}
                if line.startswith("E "):
                    res["evals"].append(rec)
                else:
                    res["news"][(rec["run"], rec["tid"], rec["op"])] = rec
            elif line.startswith("L "):
                res["log"].append(line)
        return res


def abort_class(reason):
    if reason is None:
        return None
    for c in ("self-deadlock", "deadlock", "step budget", "watchdog", "harness-panic"):
        if reason.startswith(c):
            return c
    return "other"


def shows(sim, text, viol, tries=None, os_seconds=25):
    """Does replaying `text` in a fresh process show violation `viol`? Returns (bool, info).
    A script whose threads are scheduled by the OS (policy=os) is tried several times."""
    if "policy=os" in text:
        n = tries or OS_TRIES[0]
        last = (False, {})
        t_first = time.time()
        for k in range(n):
            last = shows_once(sim, text, viol)
            if last[0]:
                last[1]["os_tries"] = k + 1
                return last
            # long scripts (a batch-export run takes about a second) get fewer repetitions:
            # at most about 25 s per candidate
            if k >= 3 and time.time() - t_first > os_seconds:
                break
            if out_of_time():
                break
        return last
    return shows_once(sim, text, viol)


OS_TRIES = [30]


def shows_once(sim, text, viol):
    ob = viol["obligation"]
    want = abort_class(viol["detail"]) if ob == "P" else None
    res = sim.replay(text, watchdog=6 if want == "watchdog" else 30)
    if res["rc"] == 2 and want != "watchdog":
        return False, {"res": res, "note": "replay harness error"}
    if ob == "P":
        for r in res["runs"]:
            if r["abort"] and abort_class(r["abort"]) == want:
                return True, {"res": res, "got": r["abort"], "expected": "every operation returns", "where": "run %d" % r["i"]}
        return False, {"res": res}
    key = viol["key"]
    if ob == "R":
        for e in res["evals"]:
            if e["key"] == key:
                n = res["news"].get((e["run"], e["tid"], e["op"]))
                if n and (n["class"], n["digest"]) != (e["class"], e["digest"]):
                    return True, {"res": res, "got": e, "expected": n, "expected_from": "LunarMonth::new (uncached reference) in the same process"}
    c = sim.cold(key)
    for e in res["evals"]:
        if e["key"] == key and (e["class"], e["digest"]) != (c[0], c[1]):
            return True, {"res": res, "got": e, "expected": {"class": c[0], "digest": c[1], "text": c[2]}, "expected_from": "the same query alone in a fresh process"}
    if "policy=os" in text:
        # threads scheduled by the OS: which request of the script is hit differs from one
        # execution to the next. Any request of this replay that was answered in two ways, one of
        # which is not its cold answer, shows the same violation.
        seen = {}
        for e in res["evals"]:
            seen.setdefault(e["key"], set()).add((e["class"], e["digest"]))
        twofold = [k for k, v in seen.items() if len(v) > 1][:3]
        for k2 in twofold:
            c2 = sim.cold(k2)
            for e in res["evals"]:
                if e["key"] == k2 and (e["class"], e["digest"]) != (c2[0], c2[1]):
                    return True, {"res": res, "got": e, "expected": {"class": c2[0], "digest": c2[1], "text": c2[2]}, "expected_from": "the same query alone in a fresh process", "other_key": k2}
    return False, {"res": res}


def adopt_traces(runs, res):
    """Write the traces the replay actually took into the script (so it replays without fallback)."""
    for r, rr in zip(runs, res["runs"]):
        # canonical thread numbering first, so that the owners reported by the replay match the script
        tids = sorted(set(t for t, _ in r["ops"]))
        remap = {t: i for i, t in enumerate(tids)}
        r["ops"] = [(remap[t], op) for t, op in r["ops"]]
        r["attrs"]["policy"] = "fixed"
        r["attrs"]["trace"] = rr["trace"]
        r["attrs"].pop("sched", None)
        r["attrs"]["sched"] = "0"
        r["owners"] = list(rr.get("owners", []))
    return runs


DEADLINE = [None]


def out_of_time():
    return DEADLINE[0] is not None and time.time() > DEADLINE[0]


def ddmin(items, test, budget):
    """Classic ddmin: smallest sublist (order kept) for which test(sublist) is true."""
    n = 2
    while len(items) >= 2 and budget[0] > 0 and not out_of_time():
        chunk = max(1, len(items) // n)
        subsets = [items[i:i + chunk] for i in range(0, len(items), chunk)]
        reduced = False
        for i in range(len(subsets)):
            comp = [x for j, s in enumerate(subsets) if j != i for x in s]
            budget[0] -= 1
            if comp and test(comp):
                items = comp
                n = max(n - 1, 2)
                reduced = True
                break
            if budget[0] <= 0 or out_of_time():
                break
        if not reduced:
            if n >= len(items):
                break
            n = min(len(items), n * 2)
    return items


def minimise(sim, text, viol, max_replays=400, seconds=75):
    """Wall-clock bounded: long histories (a bounded memo needs > 1000 requests) replay slowly;
    what is not minimal after `seconds` is reported as it stands."""
    DEADLINE[0] = time.time() + seconds
    try:
        return minimise_inner(sim, text, viol, max_replays)
    finally:
        DEADLINE[0] = None


def minimise_inner(sim, text, viol, max_replays):
    runs = parse_script(text)
    if any(r["attrs"].get("policy") == "os" for r in runs):
        return minimise_os(sim, runs, viol)
    if viol["obligation"] == "P" and abort_class(viol["detail"]) == "watchdog":
        max_replays = 14  # every reproducing candidate costs a watchdog period
    budget = [max_replays]
    original_ops = count_ops(runs)

    def ok(cand_runs):
        good, info = shows(sim, render_script(cand_runs), viol)
        return good

    # 1. fewer runs: the last run alone, then the warm period of the last run, then ddmin over runs
    if len(runs) > 1:
        last = [dict(runs[-1], attrs=dict(runs[-1]["attrs"], reset="1"))]
        budget[0] -= 1
        if ok(last):
            runs = last
        else:
            k = len(runs) - 1
            while k > 0 and runs[k]["attrs"].get("reset") != "1":
                k -= 1
            if k > 0:
                budget[0] -= 1
                if ok(runs[k:]):
                    runs = runs[k:]
            if len(runs) > 1:
                runs = ddmin(runs, ok, budget)
    # 2. fewer operations (all runs together; items are (run index, op index)). The schedule is
    # kept aligned: a decision taken while a removed operation was at a yield point goes with it.
    good, info = shows(sim, render_script(runs), viol)
    if good and len(info["res"]["runs"]) == len(runs):
        runs = adopt_traces(runs, info["res"])
    items = [(ri, oi) for ri, r in enumerate(runs) for oi in range(len(r["ops"]))]

    def build(sel):
        keep = set(sel)
        out = []
        for ri, r in enumerate(runs):
            kept = [(oi, t, op) for oi, (t, op) in enumerate(r["ops"]) if (ri, oi) in keep]
            if not kept:
                continue
            nr = {"attrs": dict(r["attrs"]), "ops": [(t, op) for _, t, op in kept]}
            owners = r.get("owners")
            trace = [c for c in r["attrs"].get("trace", "").split(".") if c != ""]
            if owners is not None and len(owners) == len(trace):
                # per-thread operation index of every operation, before and after
                seen = {}
                old_idx = {}
                for oi, (t, op) in enumerate(r["ops"]):
                    old_idx[oi] = (t, seen.get(t, 0))
                    seen[t] = seen.get(t, 0) + 1
                seen = {}
                new_of = {}
                for oi, t, op in kept:
                    new_of[old_idx[oi]] = seen.get(t, 0)
                    seen[t] = seen.get(t, 0) + 1
                ntrace, nown = [], []
                for c, (ot, oo) in zip(trace, owners):
                    if ot == 255:
                        ntrace.append(c)
                        nown.append((ot, oo))
                    elif (ot, oo) in new_of:
                        ntrace.append(c)
                        nown.append((ot, new_of[(ot, oo)]))
                nr["attrs"]["trace"] = ".".join(ntrace)
                nr["owners"] = nown
            out.append(nr)
        return out

    def ok_items(sel):
        b = build(sel)
        return bool(b) and ok(b)

    if len(items) > 1:
        items = ddmin(items, ok_items, budget)
        runs = build(items)
    # 2b. interleaving-dependent violations: removing operations shifts the schedule, so a smaller
    # history may need its own schedule. Search seeded schedules for every candidate.
    multi = any(len(set(t for t, _ in r["ops"])) > 1 for r in runs)
    if multi and count_ops(runs) > 3 and not (viol["obligation"] == "P" and abort_class(viol["detail"]) == "watchdog"):
        t_end = min(time.time() + 60, DEADLINE[0] or (time.time() + 60))
        found = {}

        def with_policy(cand, policy, seed_):
            return [{"attrs": {k: v for k, v in dict(r["attrs"], policy=policy, sched=str(seed_)).items() if k != "trace"}, "ops": r["ops"]} for r in cand]

        def ok_any_schedule(sel):
            cand = build2(sel)
            if not cand or time.time() > t_end:
                return False
            tries = [cand] + [with_policy(cand, "rw", k) for k in range(1, 11)] + [with_policy(cand, "pct2", k) for k in range(1, 7)]
            for c in tries:
                good_, info_ = shows(sim, render_script(c), viol)
                if good_:
                    found[frozenset(sel)] = adopt_traces([dict(r) for r in c], info_["res"]) if len(info_["res"]["runs"]) == len(c) else c
                    return True
            return False

        base_runs = runs
        items2 = [(ri, oi) for ri, r in enumerate(base_runs) for oi in range(len(r["ops"]))]

        def build2(sel):
            keep = set(sel)
            out = []
            for ri, r in enumerate(base_runs):
                ops = [(t, op) for oi, (t, op) in enumerate(r["ops"]) if (ri, oi) in keep]
                if ops:
                    out.append({"attrs": dict(r["attrs"]), "ops": ops})
            return out

        b2 = [120]
        items2 = ddmin(items2, ok_any_schedule, b2)
        if frozenset(items2) in found:
            runs = found[frozenset(items2)]
    # 3. simpler schedule: sequential if the violation survives
    seq = [{"attrs": {k: v for k, v in dict(r["attrs"], policy="seq", sched="0").items() if k != "trace"}, "ops": r["ops"]} for r in runs]
    budget[0] -= 1
    if not out_of_time() and ok(seq):
        runs = seq
    # 4. fewer threads: fold everything of a run into one thread, in order
    for ri in range(len(runs)):
        if out_of_time():
            break
        tids = sorted(set(t for t, _ in runs[ri]["ops"]))
        if len(tids) > 1:
            folded = [dict(r) for r in runs]
            folded[ri] = {"attrs": {k: v for k, v in runs[ri]["attrs"].items() if k != "trace"}, "ops": [(0, op) for _, op in runs[ri]["ops"]]}
            folded[ri]["attrs"]["policy"] = "seq"
            budget[0] -= 1
            if budget[0] > 0 and ok(folded):
                runs = folded
            else:
                # same, but in the order in which the operations were actually invoked
                good_, info_ = shows(sim, render_script(runs), viol)
                if good_:
                    per_thread = {}
                    for t, op in runs[ri]["ops"]:
                        per_thread.setdefault(t, []).append(op)
                    remap = {t: i for i, t in enumerate(sorted(per_thread))}
                    inv = {i: t for t, i in remap.items()}
                    order = [(e["tid"], e["op"]) for e in info_["res"]["evals"] if e["run"] == ri]
                    seq_ops = []
                    used = set()
                    for tid, opi in order:
                        t = inv.get(tid)
                        if t is not None and opi < len(per_thread[t]) and (t, opi) not in used:
                            used.add((t, opi))
                            seq_ops.append((0, per_thread[t][opi]))
                    if len(seq_ops) == len(runs[ri]["ops"]):
                        folded[ri]["ops"] = seq_ops
                        budget[0] -= 1
                        if budget[0] > 0 and ok(folded):
                            runs = folded
    # 5. default hash seed if it does not matter
    plain = [{"attrs": dict(r["attrs"], hash="0"), "ops": r["ops"]} for r in runs]
    budget[0] -= 1
    if not out_of_time() and ok(plain):
        runs = plain
    # fix the schedule that the final script actually takes
    good, info = shows(sim, render_script(runs), viol)
    if good:
        runs = adopt_traces(runs, info["res"])
        good2, info2 = shows(sim, render_script(runs), viol)
        if good2:
            return render_script(runs), info2, original_ops, count_ops(runs)
    return None, None, original_ops, original_ops


def minimise_os(sim, runs, viol):
    """Histories whose threads the OS schedules: every candidate is tried several times."""
    n0 = count_ops(runs)
    budget = [60]

    def ok(c):
        return bool(c) and shows(sim, render_script(c), viol, tries=6)[0]

    if len(runs) > 1:
        last = [dict(runs[-1], attrs=dict(runs[-1]["attrs"], reset="1"))]
        if ok(last):
            runs = last
        else:
            runs = ddmin(runs, ok, budget)
    items = [(ri, oi) for ri, r in enumerate(runs) for oi in range(len(r["ops"]))]

    def build(sel):
        keep = set(sel)
        out = []
        for ri, r in enumerate(runs):
            ops = [op for oi, op in enumerate(r["ops"]) if (ri, oi) in keep]
            if ops:
                out.append({"attrs": dict(r["attrs"]), "ops": ops})
        return out

    if len(items) > 1:
        items = ddmin(items, lambda sel: ok(build(sel)), budget)
        runs = build(items)
    # is it a race at all? the same operations one thread after the other
    seq = [{"attrs": dict(r["attrs"], policy="seq", sched="0"), "ops": r["ops"]} for r in runs]
    if shows_once(sim, render_script(seq), viol)[0]:
        runs = seq
    # the smaller script must show the violation reliably, not once by luck: three rounds of at most
    # 20 executions each must all show it, otherwise the history as found is reported
    info = None
    for _ in range(3):
        good, info = shows(sim, render_script(runs), viol, tries=20)
        if not good:
            return None, None, n0, n0
    return render_script(runs), info, n0, count_ops(runs)


MIRI_FLOAT = "-Zmiri-deterministic-floats"


def miri_sim(args, flags, timeout=1200):
    """Run the simulator binary itself under Miri (own target dir, built on first use)."""
    e = env()
    e["MIRIFLAGS"] = "-Zmiri-disable-isolation %s %s" % (MIRI_FLOAT, flags)
    p = subprocess.run(["cargo", "+nightly", "miri", "run", "--offline", "--"] + args, cwd=SIM_DIR, env=e, stdout=subprocess.PIPE, stderr=subprocess.STDOUT, text=True, timeout=timeout)
    return p.returncode, p.stdout


def miri_pin(sim, text, viol):
    """A violation found with OS-scheduled threads has no exact replay. Miri's scheduler is seeded:
    search its seeds for one under which the same script shows the same violation; that seed is an
    exactly repeatable schedule. Loops are shortened (Miri preempts between basic blocks, a few
    iterations are plenty). Returns a dict for the replay file or None."""
    if viol["obligation"] == "P" or not viol.get("key"):
        return None
    key = viol["key"]
    short = re.sub(r"q\*(\d+)", lambda m: "q*%d" % min(int(m.group(1)), 12), text)
    path = os.path.join(sim.workdir, "pin.script")
    with open(path, "w") as f:
        f.write(short)
    try:
        rc, out = miri_sim(["single"] + key.split(), "-Zmiri-seed=0", timeout=900)
        m = re.search(r"^S (\S) ([0-9a-f]{16}) ", out, re.M)
        if not m:
            return None
        cold = m.group(1) + m.group(2)
        for rate in (0.2, 0.5):
            rc, out = miri_sim(["replay", "--script", path, "--expect-key", key, "--expect-answer", cold], "-Zmiri-many-seeds=0..32 -Zmiri-preemption-rate=%s" % rate)
            ms = re.search(r"FAILING SEED:\s*(\d+)", out)
            if ms and "UNEXPECTED-ANSWER" in out:
                return {"miri_seed": int(ms.group(1)), "preemption_rate": rate, "script": short, "cold_answer_under_miri": cold, "cmd": "cd /verif/sim && MIRIFLAGS='-Zmiri-disable-isolation %s -Zmiri-seed=%s -Zmiri-preemption-rate=%s' cargo +nightly miri run --offline -- replay --script <script> --expect-key '%s' --expect-answer %s" % (MIRI_FLOAT, ms.group(1), rate, key, cold)}
    except subprocess.TimeoutExpired:
        return None
    return None


def classify(viol, text, info):
    """Refine the obligation label from what the minimised history looks like."""
    ob = viol["obligation"]
    if ob in ("P", "R"):
        return ob
    res = info["res"]
    got = info.get("got")
    runs = parse_script(text)
    if got:
        earlier_refusal = any(e["class"] == "R" and (e["run"], e["tid"], e["op"]) != (got["run"], got["tid"], got["op"]) for e in res["evals"])
        if count_ops(runs) == 1 and any(r["attrs"].get("hash", "0") != "0" for r in runs):
            return "H"
        if got.get("handle") and not got["key"].split(" ")[0].endswith(".new"):
            return "V"
        if earlier_refusal:
            return "I"
    return "A" if ob == "X" else ob


# ---------------------------------------------------------------------------------------------
# known findings

def load_known():
    if not os.path.exists(KNOWN):
        return {"open": [], "fixed": []}
    with open(KNOWN) as f:
        return json.load(f)


def match_known(known, ob, key, detail):
    for k in known.get("open", []):
        if k.get("obligation") not in (None, ob):
            continue
        pat = k.get("key_regex")
        if pat and not re.search(pat, key or ""):
            continue
        dpat = k.get("detail_regex")
        if dpat and not re.search(dpat, detail or ""):
            continue
        return k
    return None


# ---------------------------------------------------------------------------------------------
# engine B: Miri

MIRI_SCENARIOS = {
    "a": "three callers ask a month, its leap twin and a digit twin twice each and compare with LunarMonth::new",
    "b": "as a, with one caller issuing two caught refusals (month 13, wrong leap month) first",
    "c": "two callers race on the first use of every lazy static",
    "d": "one caller's eight-char computation panics inside the provider's critical section while another caller asks valid eight characters",
    "e": "two callers alternate between aliasing twins (year +-256 / +-60, term index +-24) of solar terms and leap-month lookups",
}
MIRI_PLAN = [("a", 0.05), ("a", 0.2), ("b", 0.05), ("b", 0.2), ("c", 0.05), ("c", 0.2), ("d", 0.2), ("e", 0.05), ("e", 0.2)]


def miri_run(scenario, flags, timeout=3600):
    e = env()
    e["MIRIFLAGS"] = flags
    p = subprocess.run(["cargo", "+nightly", "miri", "run", "--offline", "--", scenario], cwd=MIRI_DIR, env=e, stdout=subprocess.PIPE, stderr=subprocess.STDOUT, text=True, timeout=timeout)
    out = p.stdout
    ok = out.count("scenario %s ok" % scenario)
    sig = None
    for pat in ("C10-MISMATCH", "Data race detected", "deadlock"):
        if pat in out:
            sig = pat
            break
    failing = re.findall(r"(?i)failing seed:?\s*(\d+)", out)
    return p.returncode, ok, sig, failing, out


def run_miri(nseeds):
    """Returns (stats, violations, harness_errors)."""
    stats = {"scenarios": {}, "seeds_per_scenario_and_rate": nseeds, "preemption_rates": [0.05, 0.2], "executions_ok": 0, "wall_s": 0}
    viols = []
    errs = []
    t0 = time.time()
    for sc, rate in MIRI_PLAN:
        if True:
            flags = "-Zmiri-many-seeds=0..%d -Zmiri-preemption-rate=%s" % (nseeds, rate)
            try:
                rc, ok, sig, failing, out = miri_run(sc, flags)
            except subprocess.TimeoutExpired:
                errs.append("miri scenario %s rate %s timed out" % (sc, rate))
                continue
            stats["scenarios"].setdefault(sc, {"what": MIRI_SCENARIOS[sc], "ok": 0})["ok"] += ok
            stats["executions_ok"] += ok
            if sig:
                viols.append({"scenario": sc, "rate": rate, "signature": sig, "failing_seeds": failing, "output_tail": out[-3000:]})
            elif rc != 0 or ok != nseeds:
                errs.append("miri scenario %s rate %s: exit %d, %d/%d executions ok, no violation signature: %s" % (sc, rate, rc, ok, nseeds, out[-600:]))
    stats["wall_s"] = round(time.time() - t0, 1)
    return stats, viols, errs

# ---------------------------------------------------------------------------------------------
# the check

def run_check(tier, seed):
    t0 = time.time()
    cfg = TIERS[tier]
    build_s = build()
    work = os.path.join(ROOT, "work", "run_%d" % os.getpid())
    shutil.rmtree(work, ignore_errors=True)
    os.makedirs(work)
    os.makedirs(REPLAYS, exist_ok=True)
    sim = Sim(work)
    known = load_known()

    jobs = []  # (name, cmd, outfile)
    for i in range(cfg["sweeps"]):
        out = os.path.join(work, "sweep_%d.json" % i)
        jobs.append(("sweep%d" % i, [BIN, "sweep", "--seed", str(seed), "--index", str(i), "--out", out], out))
    for i in range(cfg["hash_orders"] + 1):
        out = os.path.join(work, "hash_%d.json" % i)
        jobs.append(("hashorder%d" % i, [BIN, "hashorder", "--seed", str(seed), "--index", str(i), "--out", out], out))
    out = os.path.join(work, "hotkey.json")
    jobs.append(("hotkey", [BIN, "hotkey", "--seed", str(seed), "--keys", str(cfg["hot_keys"]), "--out", out], out))
    # long-history sub-check: the same N distinct queries in one long-lived process, one order per process
    # (the last lr_mt of them deal every block of 4,096 queries to 4 threads under the random-walk scheduler)
    # Second group: a refusal-heavy history (3 of 4 queries are requests built to be refused).
    lr_args = {}
    for (lr_procs, lr_n, lr_mt, lr_ref) in cfg["longrun"]:
        for i in range(lr_procs):
            tag = "%s_%d" % (lr_ref.replace("/", "of"), i)
            out = os.path.join(work, "longrun_%s.json" % tag)
            extra = ["--n", str(lr_n), "--threads", str(4 if i >= lr_procs - lr_mt else 1), "--refusals", lr_ref]
            lr_args[(lr_ref, i)] = (extra, os.path.join(work, "longrun_%s.txt" % tag))
            jobs.append(("longrun%s" % tag, [BIN, "longrun", "--seed", str(seed), "--index", str(i)] + extra + ["--out", out, "--answers", lr_args[(lr_ref, i)][1]], out))
    explore_ids = []
    for spec in cfg["explore"]:
        (w0, nw, runs, conc, rpct) = spec[:5]
        prewarm = spec[5] if len(spec) > 5 else 0
        for w in range(w0, w0 + nw):
            out = os.path.join(work, "explore_%d.json" % w)
            jobs.append(("explore%d" % w, [BIN, "explore", "--seed", str(seed), "--worker", str(w), "--runs", str(runs), "--seconds", str(cfg["seconds_cap"]), "--conc", str(conc), "--reset-pct", str(rpct), "--sample-fresh", str(cfg["fresh_sample"]), "--watchdog", "20", "--prewarm", str(prewarm), "--out", out], out))
            explore_ids.append(w)
    # stress sub-check: no baton, the OS schedules the threads (reaches lock-free, allocation-free races)
    (sw0, snw, ssecs) = cfg["stress"]
    for w in range(sw0, sw0 + snw):
        out = os.path.join(work, "stress_%d.json" % w)
        jobs.append(("stress%d" % w, [BIN, "explore", "--stress", "--seed", str(seed), "--worker", str(w), "--runs", "10000000", "--seconds", str(ssecs), "--sample-fresh", "0", "--watchdog", "20", "--out", out], out))
    # determinism self-check: two extra copies of worker 0 (prefix of its runs), digests compared
    det_outs = []
    for k in range(2):
        out = os.path.join(work, "det_%d.txt" % k)
        det_outs.append(out)
        jobs.append(("det%d" % k, [BIN, "explore", "--seed", str(seed), "--worker", "0", "--runs", str(cfg["determinism_runs"]), "--digest", "--out", os.path.join(work, "det_%d.json" % k)], out))

    # run everything, NPROC at a time, longest first
    def job_rank(j):
        n = j[0]
        for i, pre in enumerate(("longrun", "sweep", "hotkey", "explore", "stress", "det", "hashorder")):
            if n.startswith(pre):
                return i
        return 9
    jobs.sort(key=job_rank)
    pending = list(jobs)
    running = []
    results = {}
    while pending or running:
        while pending and len(running) < NPROC:
            name, cmd, out = pending.pop(0)
            if name.startswith("det"):
                fh = open(out, "w")
                p = subprocess.Popen(cmd, stdout=fh, stderr=subprocess.PIPE, text=True)
            else:
                fh = None
                p = subprocess.Popen(cmd, stdout=subprocess.PIPE, stderr=subprocess.PIPE, text=True)
            running.append((name, p, out, fh, time.time()))
        time.sleep(0.05)
        still = []
        for (name, p, out, fh, ts) in running:
            if p.poll() is None:
                if time.time() - ts > cfg["seconds_cap"] * 3 + 600:
                    p.kill()
                    harness_error("%s did not finish" % name)
                still.append((name, p, out, fh, ts))
            else:
                so, se = p.communicate()
                if fh:
                    fh.close()
                results[name] = (p.returncode, se, out)
        running = still

    tlog("workers done")
    # collect
    harness = []
    cands = []  # violation candidates: dict(obligation,key,detail,history)
    explore = []
    sweeps = []
    hashres = None
    hashparts = []
    longruns = []
    for name, (rc, se, out) in results.items():
        if name.startswith("det"):
            continue
        if rc != 0:
            harness.append("%s exited with %d: %s" % (name, rc, (se or "")[-500:]))
        try:
            with open(out) as f:
                d = json.load(f)
        except Exception as e:  # noqa
            harness.append("%s produced no readable output (%s)" % (name, e))
            continue
        if d.get("harness_error"):
            harness.append("%s: %s" % (name, d["harness_error"]))
        if d["mode"] == "explore" and name.startswith("stress"):
            STRESS["workers"].append(d)
            for v in d["violations"]:
                cands.append({"obligation": v["obligation"], "key": v["key"], "detail": v["detail"], "history": v["history"], "source": "stress worker %d (threads scheduled by the OS)" % d["worker"]})
        elif d["mode"] == "explore":
            explore.append(d)
            for v in d["violations"]:
                cands.append({"obligation": v["obligation"], "key": v["key"], "detail": v["detail"], "history": v["history"], "source": "explore worker %d" % d["worker"]})
        elif d["mode"] == "sweep":
            sweeps.append(d)
            for v in d["violations"]:
                if v["obligation"] == "P":
                    cands.append({"obligation": "P", "key": "", "detail": v["detail"], "history": v["history"], "source": "sweep %d" % d["index"]})
                else:
                    cands.append(sweep_candidate(v, d))
        elif d["mode"] == "longrun":
            longruns.append(d)
            for v in d["violations"]:
                cands.append({"obligation": "P", "key": "", "detail": v["detail"], "history": v["history"], "source": "long-history process %d" % d["index"]})
        elif d["mode"] == "hotkey":
            HOT["stats"] = {k: d[k] for k in ("keys", "lookups_per_key", "evaluations", "wall_s")}
            for v in d["violations"]:
                cands.append({"obligation": "R", "key": v["key"], "detail": v["detail"], "history": v["history"], "source": "hot-key sweep"})
        elif d["mode"] == "hashorder":
            hashparts.append(d)
            for v in d["violations"]:
                cands.append({"obligation": "P", "key": "", "detail": v["detail"], "history": v["history"], "source": "hashorder process %d" % d["index"]})

    # long-history sub-check: the processes asked the same queries in different orders; every answer
    # must be the same in all of them
    LONG["stats"] = None
    long_groups = []
    for (lr_procs, lr_n, lr_mt, lr_ref) in cfg["longrun"]:
        grp = sorted([d for d in longruns if d.get("refusals") == lr_ref], key=lambda d: d["index"])
        if len(grp) != lr_procs or any(d["violations"] for d in grp):
            continue
        tabs = []
        for d in grp:
            with open(lr_args[(lr_ref, d["index"])][1]) as f:
                tabs.append([ln.split(" ", 2) for ln in f.read().splitlines()])
        if len(set(len(t) for t in tabs)) != 1 or len(tabs[0]) != grp[0]["n"]:
            harness.append("long-history processes returned tables of different length")
            continue
        bad = []
        for i in range(len(tabs[0])):
            a0 = tabs[0][i][0]
            for k in range(1, len(tabs)):
                if tabs[k][i][0] != a0:
                    rows = sorted(((int(tabs[j][i][1]), grp[j]["index"], tabs[j][i][0]) for j in range(len(tabs))), reverse=True)
                    bad.append((rows[0][0], tabs[0][i][2], rows))
                    break
        bad.sort()
        for (latest, key, rows) in bad[:3]:
            # most suspicious first: the process in which the query came latest
            cands.append({"obligation": "A", "key": key, "detail": "long-history processes disagree: " + ", ".join("process %d answered %s at position %d" % (ix, ans, at) for (at, ix, ans) in rows), "history": "run threads=1 policy=seq sched=0 hash=0 reset=1\nt0 q %s\nend\n" % key, "source": "long-history sub-check", "prefix_of": [("longrun", seed, ix, at, lr_args[(lr_ref, ix)][0]) for (at, ix, ans) in rows]})
        long_groups.append({"requests_built_to_be_refused": lr_ref, "processes": len(grp), "orders": ["forwards", "backwards", "shuffled", "shuffled"][:len(grp)], "threads_per_process": [d.get("threads", 1) for d in grp], "queries_per_process": grp[0]["n"], "evaluations": sum(d["evaluations"] for d in grp), "refused_per_process": grp[0]["refused"], "queries_per_family": grp[0]["queries_per_family"], "month_memo_entries_at_end": [d["month_memo_entries_after"] for d in grp], "answers_that_differ_between_processes": len(bad), "wall_s": [d["wall_s"] for d in grp]})
    if long_groups:
        LONG["stats"] = {"groups": long_groups, "evaluations": sum(g["evaluations"] for g in long_groups)}

    # hash-order sub-check: every process (own hasher seed from its first instruction on) must give
    # the answers of process 0 (seed 0, which is also what the cold singleton uses)
    hashparts.sort(key=lambda d: d["index"])
    if hashparts and hashparts[0]["index"] == 0 and hashparts[0]["answers"]:
        base = hashparts[0]
        hashres = {"orders": len(hashparts) - 1, "processes": len(hashparts), "distinct_iteration_orders": len(set(d["iteration_order_of_12_keys"] for d in hashparts)), "years": 10001, "evaluations": sum(d["evaluations"] for d in hashparts), "queries_per_process": len(base["keys"]), "hash_seeds": [d["hash_seed"] for d in hashparts]}
        for d in hashparts[1:]:
            nbad = 0
            for k, (x, y) in enumerate(zip(base["answers"], d["answers"])):
                if x != y:
                    nbad += 1
                    if nbad <= 2:
                        key = base["keys"][k]
                        hist = "run threads=1 policy=seq sched=0 hash=%d reset=1\nt0 q %s\nend\n" % (d["hash_seed"], key)
                        cands.append({"obligation": "H", "key": key, "detail": "process with hasher seed %d answers %s, with seed 0 %s" % (d["hash_seed"], y, x), "history": hist, "source": "hash-order process %d" % d["index"]})

    # determinism self-check
    det_ok = None
    try:
        a = [l for l in open(det_outs[0]).read().splitlines() if l.startswith("D ")]
        b = [l for l in open(det_outs[1]).read().splitlines() if l.startswith("D ")]
        free = sum(1 for x, y in zip(a, b) if " FREE " in x or " FREE " in y)
        if free or len(a) != len(b):
            # a wall-clock fallback (free run after a stall, watchdog) happened in one of the copies:
            # only possible on a tree with pathologically slow or blocking operations; the copies
            # are then not comparable run by run. Compare the common prefix before the first one.
            n = 0
            for x, y in zip(a, b):
                if " FREE " in x or " FREE " in y:
                    break
                n += 1
            det_ok = a[:n] == b[:n]
            det_n = n
        else:
            det_ok = a == b
            det_n = len(a)
    except Exception:  # noqa
        det_n = 0
    if det_ok is False:
        harness.append("determinism self-check failed: two processes with the same seed produced different event logs")

    tlog("collected: %d candidates" % len(cands))
    # cross-process agreement on the shared query pool
    pool_seen = {}
    for d in explore:
        for k, v in d["pool_answers"].items():
            ans, _, run = v.partition("@")
            pool_seen.setdefault(k, []).append((ans, d["worker"], int(run)))
    cross_compared = 0
    cross_keys_multi = 0
    cross_cands = []
    for k, lst in pool_seen.items():
        if len(lst) > 1:
            cross_keys_multi += 1
            cross_compared += len(lst) - 1
            if len(set(a for a, _, _ in lst)) > 1:
                cross_cands.append((k, lst))
    for k, lst in cross_cands[:4]:
        c = sim.cold(k)
        coldans = c[0] + c[1]
        for ans, w, run in lst:
            if ans != coldans:
                # re-run that worker up to the first evaluation of the key to obtain its history
                spec_ = [e for e in cfg["explore"] if e[0] <= w < e[0] + e[1]][0]
                (w0, nw, runs_, conc, rpct) = spec_[:5]
                prewarm_ = spec_[5] if len(spec_) > 5 else 0
                out = os.path.join(work, "report_%d.json" % w)
                subprocess.run([BIN, "explore", "--seed", str(seed), "--worker", str(w), "--runs", str(run + 1), "--conc", str(conc), "--reset-pct", str(rpct), "--prewarm", str(prewarm_), "--sample-fresh", "0", "--report-key", k, "--out", out], stdout=subprocess.PIPE, stderr=subprocess.PIPE, timeout=1200)
                d = json.load(open(out))
                for v in d["violations"]:
                    if v["obligation"] == "X" and v["key"] == k:
                        cands.append({"obligation": "X", "key": k, "detail": "cross-process: worker %d answered %s, a fresh process answers %s" % (w, ans, coldans), "history": v["history"], "source": "cross-process pool agreement"})
                break

    miri_stats, miri_viols = None, []
    if cfg["miri_seeds"] > 0 and not harness:
        miri_stats, miri_viols, miri_errs = run_miri(cfg["miri_seeds"])
        harness.extend(miri_errs)
    MIRI_RESULT["stats"] = miri_stats

    tlog("cross-process done: %d candidates" % len(cands))
    # a sample of evaluations from every worker against the same query alone in a really fresh
    # process (not just after the in-process restart hook)
    from concurrent.futures import ThreadPoolExecutor
    samples = []
    for d in explore:
        for smp in d.get("fresh_sample", []):
            samples.append((smp["key"], smp["ans"], d["worker"], smp["run"]))
    keys = sorted(set(k for k, _, _, _ in samples))
    if keys and not harness:
        with ThreadPoolExecutor(max_workers=NPROC) as ex:
            list(ex.map(sim.cold, keys))
    FRESH["compared"] = 0
    FRESH["distinct_keys"] = len(keys)
    fresh_bad = []
    for k, ans, w, run in samples:
        if harness:
            break
        c = sim.cold(k)
        FRESH["compared"] += 1
        if c[0] + c[1] != ans:
            fresh_bad.append((k, ans, w, run, c[0] + c[1]))
    for k, ans, w, run, coldans in fresh_bad[:3]:
        spec_ = [e for e in cfg["explore"] if e[0] <= w < e[0] + e[1]][0]
        (w0, nw, runs_, conc, rpct) = spec_[:5]
        prewarm_ = spec_[5] if len(spec_) > 5 else 0
        out = os.path.join(work, "report_f_%d.json" % w)
        subprocess.run([BIN, "explore", "--seed", str(seed), "--worker", str(w), "--runs", str(run + 1), "--conc", str(conc), "--reset-pct", str(rpct), "--prewarm", str(prewarm_), "--sample-fresh", "0", "--report-key", k, "--report-run", str(run), "--out", out], stdout=subprocess.PIPE, stderr=subprocess.PIPE, timeout=1200)
        try:
            d = json.load(open(out))
        except Exception:  # noqa
            continue
        for v in d["violations"]:
            if v["key"] == k:
                cands.append({"obligation": "X" if v["obligation"] == "X" else v["obligation"], "key": k, "detail": "fresh-process sample: worker %d run %d answered %s, a fresh process answers %s" % (w, run, ans, coldans), "history": v["history"], "source": "fresh-process sample"})
                break

    if harness:
        write_evidence(tier, seed, t0, explore, sweeps, hashres, det_ok, det_n, cross_compared, cross_keys_multi, [], [], build_s, harness)
        for h in harness:
            print("HARNESS-ERROR: " + h)
        shutil.rmtree(work, ignore_errors=True)
        sys.exit(2)

    tlog("fresh sample done: %d candidates" % len(cands))
    # confirm, minimise, report
    confirmed = []
    known_hits = []
    seen_keys = set()
    unconfirmed = []

    def cand_rank(c):
        if c["obligation"] != "P":
            return 0
        return 2 if abort_class(c["detail"]) == "watchdog" else 1

    cands.sort(key=cand_rank)
    t_report = time.time()
    report_budget = 200  # seconds for confirming and minimising everything together
    pinned_once = [False]
    prefix_done = [False]
    for c in cands:
        if confirmed and time.time() - t_report > report_budget:
            break
        if cand_rank(c) == 2 and (confirmed or known_hits):
            continue  # a hang costs a watchdog period per replay; other violations are already reported
        ident = (c["obligation"] if c["obligation"] in ("P", "R") else "A", c["key"] if c["obligation"] != "P" else abort_class(c["detail"]))
        if ident in seen_keys:
            continue
        seen_keys.add(ident)
        if len(confirmed) + len(known_hits) >= cfg["max_minimise"]:
            break
        if "stress worker" in c["source"] and sum(1 for u in unconfirmed if "stress worker" in u["source"]) >= 4:
            continue  # four OS-scheduled observations that did not show again: the rest is not tried
        tlog("confirming %s %s (%d bytes of history)" % (c["obligation"], c["key"], len(c["history"])))
        good, info = shows(sim, c["history"], c)
        tlog("confirmed=%s" % good)
        if not good and c.get("prefix_of") and prefix_done[0]:
            continue  # one whole-prefix history per check: the later records of a sweep show the same memo
        if not good and c.get("prefix_of"):
            # the short history suggested by a sweep record does not show it: take everything the
            # sweep had asked up to that request (a bounded memo misbehaves only when it is full)
            for alt in c["prefix_of"]:
                full = history_prefix(work, *alt)
                if not full:
                    continue
                tlog("retrying with the whole history prefix of %s %d (%d requests)" % (alt[0], alt[2], full.count("\n")))
                good, info = shows(sim, full, c)
                tlog("confirmed=%s" % good)
                if good:
                    c["history"] = full
                    prefix_done[0] = True
                    break
        if not good:
            unconfirmed.append(c)
            continue
        left = report_budget - (time.time() - t_report)
        if left > 10:
            mtext, minfo, n0, n1 = minimise(sim, c["history"], c, seconds=min(75, left))
        else:
            mtext, minfo, n0, n1 = None, None, count_ops(parse_script(c["history"])), 0
        if mtext is None:
            mtext, minfo, n1 = c["history"], info, n0
        ob = classify(c, mtext, minfo)
        k = match_known(known, ob, c["key"], c["detail"])
        if minfo.get("other_key"):
            c = dict(c, key=minfo["other_key"], detail=c["detail"] + " (the replay shows the same violation on `%s`: the OS decides which request of the script is hit)" % minfo["other_key"])
        rec = {"property": "C10", "obligation": ob, "query": c["key"], "detail": c["detail"], "source": c["source"], "seed": seed, "tier": tier, "expected_from": minfo.get("expected_from", ""), "expected": strip(minfo.get("expected")), "got": strip(minfo.get("got")), "where": minfo.get("where", ""), "original_ops": n0, "minimised_ops": n1, "script": mtext, "replay_cmd": "python3 /verif/check.py C10 --replay <this file>"}
        if "policy=os" in mtext:
            rec["schedule"] = "threads scheduled by the operating system (stress sub-check): the replay is repeated until the violation shows (it did after %s of at most 20 tries); see DESIGN.md 3.7b" % minfo.get("os_tries", "?")
            if not pinned_once[0] and count_ops(parse_script(mtext)) <= 6:
                pinned_once[0] = True
                tlog("searching Miri seeds for an exactly repeatable schedule")
                pin = miri_pin(sim, mtext, c)
                tlog("miri pin: %s" % (pin and pin["miri_seed"]))
                if pin:
                    rec["exact_replay_under_miri"] = pin
        if k:
            known_hits.append((k, rec))
            continue
        path = os.path.join(REPLAYS, "C10-%d-%d.json" % (seed, len(confirmed)))
        with open(path, "w") as f:
            json.dump(rec, f, ensure_ascii=False, indent=1)
        confirmed.append((path, rec))

    for mv in miri_viols:
        k = match_known(known, "M", "miri %s" % mv["scenario"], mv["signature"])
        rec = {"property": "C10", "obligation": "M", "engine": "miri", "query": "miri scenario %s" % mv["scenario"], "scenario": mv["scenario"], "what": MIRI_SCENARIOS[mv["scenario"]], "signature": mv["signature"], "preemption_rate": mv["rate"], "failing_seeds": mv["failing_seeds"], "seed": seed, "tier": tier, "output_tail": mv["output_tail"], "got": {"text": mv["signature"]}, "expected": {"text": "all callers agree with LunarMonth::new; no data race; no deadlock"}, "expected_from": "Miri", "original_ops": 0, "minimised_ops": 0, "replay_cmd": "python3 /verif/check.py C10 --replay <this file>"}
        if k:
            known_hits.append((k, rec))
            continue
        path = os.path.join(REPLAYS, "C10-%d-miri-%s-%s.json" % (seed, mv["scenario"], str(mv["rate"]).replace(".", "")))
        with open(path, "w") as f:
            json.dump(rec, f, ensure_ascii=False, indent=1)
        confirmed.append((path, rec))

    for k, rec in known_hits:
        print("KNOWN-FINDING: property=C10 %s" % k.get("what", k.get("id", "")))
    for path, rec in confirmed:
        print("VIOLATION property=C10 replay=%s" % path)
        print("  obligation %s, query `%s`: got %s, expected %s (%s); %d operations after minimisation (from %d)" % (rec["obligation"], rec["query"], brief(rec["got"]), brief(rec["expected"]), rec["expected_from"] or rec["where"], rec["minimised_ops"], rec["original_ops"]))
    # what the OS-scheduled stress sub-check saw but repetition did not show again is reported as an
    # observation, not as a verdict and not as a harness error (its schedule is not ours to repeat)
    for c in [c for c in unconfirmed if "stress worker" in c["source"]][:3]:
        print("STRESS-OBSERVATION-NOT-REPRODUCED: %s on `%s`: %s (repeated %d times without showing again)" % (c["source"], c["key"], c["detail"][:160], OS_TRIES[0]))
    unconfirmed = [c for c in unconfirmed if "stress worker" not in c["source"]]
    if unconfirmed and not confirmed:
        # a mismatch seen in a long-lived worker that does not reproduce in a fresh process is a
        # harness anomaly, not a verdict
        for c in unconfirmed[:3]:
            print("HARNESS-ERROR: unconfirmed mismatch from %s on `%s`: %s" % (c["source"], c["key"], c["detail"]))
        write_evidence(tier, seed, t0, explore, sweeps, hashres, det_ok, det_n, cross_compared, cross_keys_multi, confirmed, known_hits, build_s, ["unconfirmed mismatch"])
        shutil.rmtree(work, ignore_errors=True)
        sys.exit(2)
    write_evidence(tier, seed, t0, explore, sweeps, hashres, det_ok, det_n, cross_compared, cross_keys_multi, confirmed, known_hits, build_s, [])
    shutil.rmtree(work, ignore_errors=True)
    if confirmed:
        sys.exit(1)
    print("C10 %s: held on %d runs, %d evaluations, %d sweeps, %d hash orders (seed %d, %.1fs)" % (tier, sum(d["runs"] for d in explore), sum(d["evaluations"] for d in explore) + sum(s["evaluations"] for s in sweeps), len(sweeps), hashres["orders"] if hashres else 0, seed, time.time() - t0))
    sys.exit(0)


def strip(e):
    if not e:
        return None
    if not isinstance(e, dict):
        return {"text": str(e)}
    return {k: e[k] for k in ("class", "digest", "text", "run", "tid", "op") if k in e}


def brief(e):
    if not e:
        return "-"
    t = e.get("text", "")
    return "%s(%s)" % ("refused" if e.get("class") == "R" else "ok", t[:100])


def sweep_candidate(v, d):
    """A sweep violation: try the two-request history suggested by the record that came back."""
    key = v["key"]
    hist = None
    m = re.match(r"LM\((-?\d+) (-?\d+) ", v.get("got", ""))
    if m:
        hist = "run threads=1 policy=seq sched=0 hash=0 reset=1\nt0 q LM.from_ym %s %s\nt0 q %s\nend\n" % (m.group(1), m.group(2), key)
    if hist is None:
        hist = "run threads=1 policy=seq sched=0 hash=0 reset=1\nt0 q %s\nt0 q %s\nend\n" % (key, key)
    return {"obligation": v["obligation"], "key": key, "detail": "sweep %d position %d: answered %s there; asked again now %s, expected %s" % (d["index"], v["position"], v.get("got_class", "?"), v.get("got", "")[:120], v.get("expected", "")[:120]), "history": hist, "source": "sweep %d" % d["index"], "prefix_of": [("sweep", d["seed"], d["index"], v["position"], [])]}


def history_prefix(work, mode, seed, index, position, extra):
    out = os.path.join(work, "%s_prefix_%d_%d.txt" % (mode, index, position))
    p = subprocess.run([BIN, mode, "--seed", str(seed), "--index", str(index), "--dump-upto", str(position), "--out", out] + list(extra), capture_output=True, text=True)
    if p.returncode != 0 or not os.path.exists(out):
        return None
    with open(out) as f:
        return f.read()


MIRI_RESULT = {"stats": None}
FRESH = {"compared": 0, "distinct_keys": 0}
HOT = {"stats": None}
LONG = {"stats": None}
STRESS = {"workers": []}


def write_evidence(tier, seed, t0, explore, sweeps, hashres, det_ok, det_n, cross_compared, cross_keys_multi, confirmed, known_hits, build_s, harness):
    def tot(k):
        return sum(d.get(k, 0) for d in explore)

    def totlist(k, n):
        out = [0] * n
        for d in explore:
            for i, x in enumerate(d.get(k, [])):
                out[i] += x
        return out

    def totmap(k):
        out = {}
        for d in explore:
            for kk, v in d.get(k, {}).items():
                out[kk] = out.get(kk, 0) + v
        return out

    nontrivial = set()
    end_states = set()
    logs = set()
    for d in explore:
        nontrivial.update(d.get("nontrivial_hashes", []))
        end_states.update(d.get("end_state_hashes", []))
        logs.update(d.get("log_hashes", []))
    runs = tot("runs")
    wall = time.time() - t0
    sim_wall = max([d["wall_s"] for d in explore] + [0.001])
    evaluations = tot("evaluations") + sum(s["evaluations"] for s in sweeps) + (hashres["evaluations"] if hashres else 0) + ((HOT["stats"] or {}).get("evaluations", 0)) + ((LONG["stats"] or {}).get("evaluations", 0))
    lock_names = explore[0]["lock_names"] if explore else []
    samples = []
    for d in explore[:4]:
        samples.extend(d.get("samples", [])[:2])
    for s in sweeps[:1]:
        samples.append({"sweep": s["index"], "valid_months": s["valid_months"], "first_requests": s.get("samples", [])})
    cov = {
        "evaluations": evaluations,
        "distinct_nontrivial": len(nontrivial) + sum(s["valid_months"] for s in sweeps[:1]),
        "rule": "A case is one simulated run: a seeded multi-thread history of public-API queries, refusals and value-handle operations executed under one seeded schedule (generated by sim/src/gen.rs from VERIF_SEED, worker id and run index). Every evaluation of every run is compared with the answer the same query gets right after a restart (memo and poison cleared, default hash seed) in that process. A run is counted as non-trivial if in addition at least one of its evaluations had a second in-process reference (same key evaluated before under another history/schedule, or LunarMonth::from_ym against the uncached LunarMonth::new). Distinct = distinct hash of (lock-event log, sequence of (query key, answer digest)). The whole-domain sweep adds one case per valid lunar month (each asked on the miss path and on the hit path and compared with LunarMonth::new), counted once however many sweeps ran.",
        "samples": samples,
        "obligations_checked": ["A agreement (same query, same answer anywhere)", "R from_ym == LunarMonth::new", "I isolation of refusals", "P bounded progress / no deadlock", "V value-memo transparency", "H hash-order independence"],
        "runs": runs,
        "runs_per_hour": int(runs / max(wall, 0.001) * 3600) if explore else 0,
        "seeds": {"VERIF_SEED": seed, "workers": [d["worker"] for d in explore], "derivation": "run_seed = mix(mix(VERIF_SEED, worker+1), run_index) (SplitMix64), two streams per run: workload and schedule"},
        "simulated_time": {"value": 0, "reason": "tyme4rs has no clock, timer or deadline; logical time is the scheduler step counter", "scheduler_steps": tot("steps")},
        "comparisons_against_cold_answer": tot("cold_comparisons"),
        "cold_evaluations_one_per_distinct_key_per_process": tot("cold_evaluations"),
        "comparisons_with_earlier_evaluations_in_process": tot("comparisons"),
        "refinement_checks_from_ym_vs_new": tot("r_checks") + sum(s["evaluations"] for s in sweeps),
        "value_handle_evaluations": tot("handle_evaluations"),
        "hot_key_sweep": HOT["stats"],
        "long_history_sub_check": LONG["stats"],
        "stress_sub_check_os_scheduled": {"workers": len(STRESS["workers"]), "runs": sum(d["runs"] for d in STRESS["workers"]), "evaluations_compared": sum(d["cold_comparisons"] for d in STRESS["workers"]), "wall_s_per_worker": max([d["wall_s"] for d in STRESS["workers"]] + [0]), "note": "threads released together, no baton; not deterministic; findings are confirmed by repeated replay"},
        "fresh_process_sample": {"evaluations_compared_with_the_same_query_alone_in_a_new_process": FRESH["compared"], "distinct_keys": FRESH["distinct_keys"]},
        "cross_process": {"pool_keys_seen_in_2plus_processes": cross_keys_multi, "comparisons": cross_compared, "processes": len(explore)},
        "fault_kinds_fired": {
            "F1_F2_refused_requests_total": tot("refusals"),
            "F3_F4_panics_unwinding_through_a_lock_by_lock": dict(zip(lock_names, totlist("unwinds_by_lock", 4))),
            "acquisitions_of_a_poisoned_lock_by_lock": dict(zip(lock_names, totlist("poisoned_acquisitions_by_lock", 4))),
            "injected_by_generator_class": dict(zip(["-", "F1_err_before_lock", "F2_panic_outside_lock", "F3_panic_inside_month_memo_lock", "F4_panic_inside_eight_char_provider_lock", "F4_panic_inside_child_limit_provider_lock"], totlist("injected_refusals_by_class", 6))),
            "F6_starvation_stretches_over_100_steps": tot("starvation_stretches"),
            "F6b_long_preemptions_park_policy": {"victims_parked": tot("parks"), "scheduler_steps_sat_out": tot("parked_steps")},
            "F7_restarts_between_runs": tot("resets"),
            "warm_runs_inheriting_memo": tot("warm_runs"),
            "F8_hash_orders": (hashres or {}).get("orders", 0),
            "runs_ending_with_a_poisoned_lock": tot("runs_ending_with_poisoned_lock"),
        },
        "configurations": {"fault_free_runs": tot("fault_free_runs"), "runs_with_refusals": tot("faulty_runs"), "evaluations_in_fault_free_runs": tot("evaluations_in_fault_free_runs"), "evaluations_in_runs_with_refusals": tot("evaluations_in_faulty_runs")},
        "probes": {
            "memo_hit_path_direct_reask": tot("memo_warm_reask"),
            "memo_miss_path_direct_ask": tot("memo_cold_ask"),
            "valid_evaluations_after_a_refusal": tot("valid_after_refusal"),
            "valid_evaluations_after_an_unwind_through_a_lock": tot("valid_after_lock_unwind"),
            "same_month_valid_after_refused": tot("same_month_after_refusal"),
            "twin_pairs_within_one_run": tot("twin_pairs_in_run"),
            "blocked_on_lock_events": tot("blocked_events"),
            "unwind_while_another_thread_blocked_on_that_lock": tot("unwind_while_waiter"),
            "max_scheduler_steps_in_one_operation": max([d.get("max_op_steps", 0) for d in explore] + [0]),
            "max_locks_held_at_once": max([d.get("max_held_locks", 0) for d in explore] + [0]),
        },
        "distinct_interleavings": {"measure": "distinct hashes of the per-run (thread, event, lock, op#) log", "count": len(logs)},
        "distinct_states": {"measure": "distinct (sorted month-memo key set, poison flags of the three locks) at the end of a run", "count": len(end_states)},
        "schedulers": totmap("by_policy"),
        "threads": totmap("by_threads"),
        "eras": totmap("by_era"),
        "sweeps": [{"index": s["index"], "valid_months": s["valid_months"], "miss_path": s["miss_path"], "hit_path": s["hit_path"], "invalid_requests": s["invalid_requests"], "wall_s": s["wall_s"]} for s in sweeps],
        "hash_order": {k: hashres[k] for k in ("orders", "distinct_iteration_orders", "years", "evaluations")} if hashres else None,
        "determinism_selfcheck": {"runs_compared": det_n, "identical": det_ok},
        "engine_B_miri": MIRI_RESULT["stats"] if MIRI_RESULT["stats"] else "not run in this tier",
        "components": {"real": ["all of tyme4rs (built from /repo's working tree with feature verif)", "lazy_static", "regex", "std::sync::Mutex incl. poisoning", "std::thread (real OS threads, released one at a time)"], "simulated": ["choice of the running thread at every yield point", "hash-map iteration order (seeded hasher behind the verif seam)"], "stubbed": []},
        "build_s": round(build_s, 1),
        "runs_that_left_simulator_control_free_run": tot("free_run_runs"),
        "allocator_seam": {"runs_with_allocation_yield_points": tot("runs_with_alloc_yields"), "allocation_yield_points_taken": tot("alloc_yields")},
        "harness_errors": harness,
        "known_findings_hit": [k.get("id", "") for k, _ in known_hits],
        "replays_written": [p for p, _ in confirmed],
    }
    ev = {
        "property_id": "C10",
        "tier": tier,
        "seed": seed,
        "level": "exploration",
        "coverage": cov,
        "assumptions": [
            "sampling, not proof: a clean batch is evidence",
            "between yield points (operation start, lock, unlock) library code runs atomically; exact while the three mutexes are the library's only inter-thread channel (Miri scenarios in the thorough tier cover preemption elsewhere)",
            "histories bounded: <= 16 threads, <= 24 operations per thread, years -1..9999",
            "agreement compares the library with itself; a wrong answer that is the same everywhere is not a C10 violation",
        ],
        "wall_s": round(wall, 2),
        "violations": len(confirmed),
    }
    os.makedirs(os.path.dirname(EVIDENCE), exist_ok=True)
    with open(EVIDENCE, "w") as f:
        json.dump(ev, f, ensure_ascii=False, indent=1)
    # a per-tier copy, so that a later quick run does not erase what the last thorough run covered
    with open(EVIDENCE.replace(".json", ".%s.json" % tier), "w") as f:
        json.dump(ev, f, ensure_ascii=False, indent=1)


def replay_file(path):
    with open(path) as f:
        rec = json.load(f)
    if rec.get("engine") == "miri":
        seeds = rec.get("failing_seeds") or []
        if seeds:
            flags = "-Zmiri-seed=%s -Zmiri-preemption-rate=%s" % (seeds[0], rec["preemption_rate"])
        else:
            flags = "-Zmiri-many-seeds=0..16 -Zmiri-preemption-rate=%s" % rec["preemption_rate"]
        rc, ok, sig, failing, out = miri_run(rec["scenario"], flags)
        print(out[-3000:])
        if sig:
            print("VIOLATION property=C10 replay=%s" % path)
            print("  reproduced under Miri: scenario %s, %s" % (rec["scenario"], sig))
            sys.exit(1)
        print("not reproduced on the current tree: %s" % path)
        sys.exit(0)
    build()
    work = os.path.join(ROOT, "work", "replay_%d" % os.getpid())
    sim = Sim(work)
    pin = rec.get("exact_replay_under_miri")
    if pin:
        # the exact replay: one Miri seed = one schedule
        ppath = os.path.join(work, "pin.script")
        with open(ppath, "w") as f:
            f.write(pin["script"])
        rc, out = miri_sim(["replay", "--script", ppath, "--expect-key", rec["query"], "--expect-answer", pin["cold_answer_under_miri"]], "-Zmiri-seed=%s -Zmiri-preemption-rate=%s" % (pin["miri_seed"], pin["preemption_rate"]))
        print("\n".join(l for l in out.splitlines() if l.startswith(("RUN", "E ", "UNEXPECTED"))))
        if "UNEXPECTED-ANSWER" in out:
            print("VIOLATION property=C10 replay=%s" % path)
            print("  reproduced exactly under Miri seed %s (preemption rate %s): query `%s` differs from its answer alone" % (pin["miri_seed"], pin["preemption_rate"], rec["query"]))
            shutil.rmtree(work, ignore_errors=True)
            sys.exit(1)
        print("the pinned Miri schedule does not show it on this tree; trying OS-scheduled repetitions")
    viol = {"obligation": "P" if rec["obligation"] == "P" else ("R" if rec["obligation"] == "R" else "A"), "key": rec["query"], "detail": rec.get("detail", "")}
    if rec["obligation"] == "P":
        viol["detail"] = (rec.get("got") or {}).get("text", "") or rec.get("detail", "")
    good, info = shows(sim, rec["script"], viol, tries=60, os_seconds=240)
    res = info.get("res") if good and "policy=os" in rec["script"] else sim.replay(rec["script"], log=True)
    print(rec["script"], end="")
    for l in res["raw"].splitlines():
        if not l.startswith("L ") or len(res["log"]) < 200:
            print(l)
    shutil.rmtree(work, ignore_errors=True)
    if good:
        print("VIOLATION property=C10 replay=%s" % path)
        if info.get("other_key"):
            print("  (threads scheduled by the OS: this execution shows the violation on `%s`)" % info["other_key"])
        print("  reproduced: obligation %s, query `%s`: got %s, expected %s (%s)" % (rec["obligation"], info.get("other_key") or rec["query"], brief(strip(info.get("got")) if isinstance(info.get("got"), dict) else {"text": str(info.get("got"))}), brief(strip(info.get("expected")) if isinstance(info.get("expected"), dict) else {"text": str(info.get("expected"))}), info.get("expected_from", "")))
        sys.exit(1)
    print("not reproduced on the current tree: %s" % path)
    sys.exit(0)


def selftest_determinism(nseeds):
    build()
    work = os.path.join(ROOT, "work", "det_%d" % os.getpid())
    os.makedirs(work, exist_ok=True)
    bad = 0
    total = 0
    t0 = time.time()
    for par in (1, 4, 16):
        procs = []
        for s in range(nseeds):
            for rep in range(2):
                procs.append((s, rep, par))
        outs = {}
        i = 0
        while i < len(procs):
            batch = procs[i:i + par]
            ps = []
            for (s, rep, _) in batch:
                env_ = env()
                if rep == 1:
                    env_["RUST_MIN_STACK"] = "16777216"
                ps.append((s, rep, subprocess.Popen([BIN, "explore", "--seed", str(1000 + s), "--worker", str(s % 7), "--runs", "40", "--conc", "70", "--digest", "--out", os.path.join(work, "o_%d_%d.json" % (s, rep))], stdout=subprocess.PIPE, stderr=subprocess.PIPE, text=True, env=env_)))
            for (s, rep, p) in ps:
                so, _ = p.communicate()
                outs[(s, rep)] = [l for l in so.splitlines() if l.startswith("D ")]
            i += par
        for s in range(nseeds):
            total += 1
            if outs[(s, 0)] != outs[(s, 1)] or not outs[(s, 0)]:
                bad += 1
                print("seed %d differs at parallelism %d" % (1000 + s, par))
        if par == 1:
            ref = dict(outs)
        else:
            for s in range(nseeds):
                if outs[(s, 0)] != ref[(s, 0)]:
                    bad += 1
                    print("seed %d differs between parallelism 1 and %d" % (1000 + s, par))
    shutil.rmtree(work, ignore_errors=True)
    print("determinism: %d seed x parallelism cells, 40 runs each, every cell executed twice: %d divergent (%.1fs)" % (total, bad, time.time() - t0))
    sys.exit(0 if bad == 0 else 2)


def main():
    args = sys.argv[1:]
    if not args:
        print(__doc__)
        sys.exit(2)
    if args[0] == "selftest-determinism":
        selftest_determinism(int(args[1]) if len(args) > 1 else 40)
    if args[0] == "try-script":
        build()
        sim = Sim(os.path.join(ROOT, "work", "try_%d" % os.getpid()))
        text = open(args[1]).read()
        key = " ".join(args[2:])
        good, info = shows(sim, text, {"obligation": "A", "key": key, "detail": ""})
        print(good, info.get("got"), info.get("expected"))
        sys.exit(0)
    if args[0] != "C10":
        harness_error("unknown property %s (only C10 is claimed)" % args[0])
    if "--replay" in args:
        replay_file(args[args.index("--replay") + 1])
    tier = os.environ.get("VERIF_TIER", "quick")
    if "--tier" in args:
        tier = args[args.index("--tier") + 1]
    if tier not in TIERS:
        harness_error("unknown tier %s" % tier)
    try:
        seed = int(os.environ.get("VERIF_SEED", DEFAULT_SEED))
    except ValueError:
        seed = DEFAULT_SEED
    run_check(tier, seed)


if __name__ == "__main__":
    try:
        main()
    except SystemExit:
        raise
    except BaseException as e:  # noqa: a crash of the driver is never a verdict
        import traceback
        traceback.print_exc()
        print("HARNESS-ERROR: driver crashed: %r" % (e,))
        sys.exit(2)
